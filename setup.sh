#!/bin/bash
# Warm everything the checks rebuild incrementally (all offline): the native replay drivers (release),
# the Kani harness builds and Verus' first start. The checks work without this, only slower the first time.
cd "$(dirname "$0")"
export CARGO_NET_OFFLINE=true
python3 - <<'PY'
import sys, os
sys.path.insert(0, 'tools')
import replay
root = os.getcwd()
for c in ('replay', 'replay_lsp', 'replay_lsp+lsp'):
    print('building', c, '->', replay.build(root, c), flush=True)
PY
for p in C04 C05 C07 C19; do
  VERIF_TIER=quick ./check $p >/dev/null 2>&1
  echo "warm-up run of $p: exit $?"
done
exit 0
