#!/bin/bash
# Warm the builds the checks rebuild incrementally: native replay drivers (release) and one Verus start-up.
# Everything is offline; the checks work without this, only slower the first time.
cd "$(dirname "$0")"
export CARGO_NET_OFFLINE=true
python3 - <<'PY'
import sys, os
sys.path.insert(0, 'tools')
import replay
root = os.getcwd()
for c in ('replay', 'replay_lsp', 'replay_lsp+lsp'):
    print('building', c, '->', replay.build(root, c), flush=True)
PY
exit 0
