//! Native replay driver: calls the REAL functions of /repo (path dependencies, release profile — generated
//! programs are built with `cargo build --release`, so integer overflow wraps) and compares with executable
//! transcriptions of the specification functions (specs/*.rs). Used only to demonstrate a refuted
//! obligation on a concrete input; the verdict itself comes from the verifier.
//!
//!   verif_replay call   <oracle> '<json args>'     -> one JSON line {ok, observed, expected, ...}
//!   verif_replay search <oracle> <seed> <budget>   -> first failing input as JSON, or {"found": false}
use serde_json::{json, Value};
use std::panic::{catch_unwind, AssertUnwindSafe};

mod oracles;

fn main() {
    std::panic::set_hook(Box::new(|_| {}));
    let args: Vec<String> = std::env::args().collect();
    if args.len() < 3 {
        eprintln!("usage: verif_replay call|search <oracle> ...");
        std::process::exit(2);
    }
    let oracle = args[2].as_str();
    match args[1].as_str() {
        "call" => {
            let v: Value = serde_json::from_str(&args[3]).expect("json args");
            let r = oracles::call(oracle, &v);
            println!("{}", r);
        }
        "search" => {
            let seed: u64 = args.get(3).and_then(|s| s.parse().ok()).unwrap_or(0);
            let budget: u64 = args.get(4).and_then(|s| s.parse().ok()).unwrap_or(200_000);
            let skip: Vec<String> = args.get(5).map(|s| s.split(',').map(|x| x.to_string()).collect()).unwrap_or_default();
            let r = oracles::search(oracle, seed, budget, &skip);
            println!("{}", r);
        }
        "batch" => {
            // one JSON args object per stdin line -> one verdict per line
            use std::io::BufRead;
            for line in std::io::stdin().lock().lines() {
                let line = line.unwrap();
                if line.trim().is_empty() { continue; }
                let v: Value = serde_json::from_str(&line).expect("json args");
                println!("{}", oracles::call(oracle, &v));
            }
        }
        "list" => {
            println!("{}", json!(oracles::NAMES));
        }
        _ => std::process::exit(2),
    }
}

/// run f, capturing a panic message
pub fn guarded<T>(f: impl FnOnce() -> T) -> Result<T, String> {
    match catch_unwind(AssertUnwindSafe(f)) {
        Ok(v) => Ok(v),
        Err(e) => {
            if let Some(s) = e.downcast_ref::<String>() {
                Err(s.clone())
            } else if let Some(s) = e.downcast_ref::<&str>() {
                Err((*s).to_string())
            } else {
                Err("<non-string panic>".to_string())
            }
        }
    }
}
