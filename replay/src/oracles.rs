//! Executable transcriptions of the spec functions (specs/py_divmod.rs, specs/py_seq.rs) and the table of
//! real functions they are compared with.
use crate::guarded;
use serde_json::{json, Value};
use std::collections::HashMap;

pub const NAMES: &[&str] = &[
    "core::py_mod_i64_impl", "core::py_floor_div_i64_impl", "stdlib::py_mod_i64", "stdlib::py_floor_div_i64",
    "stdlib::py_mod", "stdlib::py_floor_div", "stdlib::py_div",
    "core::py_mod_f64_impl", "stdlib::py_mod_f64", "stdlib::py_floor_div_f64",
    "core::str_char_at", "core::str_slice", "stdlib::str_index", "stdlib::str_slice",
    "stdlib::list_get", "stdlib::list_get_mut", "stdlib::list_slice", "stdlib::dict_get", "stdlib::dict_get_str", "stdlib::range",
    "core::policy",
];

const ZERO_DIV: &str = "ZeroDivisionError: float division by zero";

// ------------------------------------------------------------------------------------------------
// spec functions (mathematical integers = i128 here; all operands are i64 so nothing overflows)

fn py_floor(a: i128, b: i128) -> i128 {
    let q = a / b;
    if (a % b != 0) && ((a < 0) != (b < 0)) { q - 1 } else { q }
}
fn py_rem(a: i128, b: i128) -> i128 {
    a - py_floor(a, b) * b
}
fn py_index(len: i128, i: i128) -> Option<i128> {
    if i >= 0 { if i < len { Some(i) } else { None } } else if i + len >= 0 { Some(i + len) } else { None }
}
fn py_adjust_bound(len: i128, b: Option<i128>, step: i128, is_start: bool) -> i128 {
    match b {
        None => if step > 0 { if is_start { 0 } else { len } } else if is_start { len - 1 } else { -1 },
        Some(v) => {
            if v < 0 {
                let w = v + len;
                if w < 0 { if step < 0 { -1 } else { 0 } } else { w }
            } else if v >= len { if step < 0 { len - 1 } else { len } } else { v }
        }
    }
}
fn py_slice<T: Clone>(s: &[T], start: Option<i128>, end: Option<i128>, step: i128) -> Vec<T> {
    let len = s.len() as i128;
    let mut i = py_adjust_bound(len, start, step, true);
    let j = py_adjust_bound(len, end, step, false);
    let mut out = Vec::new();
    while (step > 0 && i < j) || (step < 0 && i > j) {
        out.push(s[i as usize].clone());
        i += step;
    }
    out
}
/// first `cap` items of range(a, b, c) and the total length
fn range_seq(a: i128, b: i128, c: i128, cap: usize) -> (Vec<i128>, i128) {
    let n = if c > 0 && a < b { (b - a + c - 1) / c } else if c < 0 && a > b { (a - b + (-c) - 1) / (-c) } else { 0 };
    let mut v = Vec::new();
    let mut k = 0i128;
    while k < n && (v.len() < cap) {
        v.push(a + k * c);
        k += 1;
    }
    (v, n)
}

// ------------------------------------------------------------------------------------------------
// argument helpers

fn gi(v: &Value, k: &str) -> i64 { v[k].as_i64().unwrap_or_else(|| v[k].as_str().and_then(|s| s.parse().ok()).expect("i64 arg")) }
fn go(v: &Value, k: &str) -> Option<i64> { if v[k].is_null() { None } else { Some(gi(v, k)) } }
fn gf(v: &Value, k: &str) -> f64 {
    match &v[k] {
        Value::String(s) => { if let Some(h) = s.strip_prefix("bits:") { f64::from_bits(u64::from_str_radix(h, 16).unwrap()) } else { s.parse().unwrap() } }
        x => x.as_f64().expect("f64 arg"),
    }
}
fn fj(x: f64) -> Value { json!({"value": format!("{:e}", x), "bits": format!("bits:{:016x}", x.to_bits())}) }
fn gs(v: &Value, k: &str) -> String { v[k].as_str().expect("string arg").to_string() }
fn gl(v: &Value, k: &str) -> Vec<i64> { v[k].as_array().expect("list arg").iter().map(|x| x.as_i64().unwrap()).collect() }
fn o128(o: Option<i64>) -> Option<i128> { o.map(|x| x as i128) }

fn verdict(ok: bool, observed: Value, expected: Value, args: &Value, what: &str) -> Value {
    json!({"ok": ok, "observed": observed, "expected": expected, "args": args, "what": what})
}
fn with_class(mut v: Value, class: Option<&str>) -> Value {
    if let Some(c) = class { v["class"] = json!(c); }
    v
}
/// known-finding class of C04: the float remainder rounds to the divisor itself (|res| == |b|, same as CPython)
fn fmod_class(res: f64, b: f64) -> Option<&'static str> { if res == b { Some("C04-fmod-rounds-to-divisor") } else { None } }
fn res_json<T: Into<Value>>(r: Result<T, String>) -> Value {
    match r { Ok(v) => json!({"returned": v.into()}), Err(m) => json!({"panicked": m}) }
}

#[derive(Clone, Copy)]
enum Num { I(i64), F(f64) }
fn gnum(v: &Value, k: &str) -> Num {
    if let Some(i) = v[k].get("i") { Num::I(i.as_i64().unwrap_or_else(|| i.as_str().unwrap().parse().unwrap())) }
    else { Num::F(gf(&v[k], "f")) }
}
fn num_json(n: Num) -> Value { match n { Num::I(i) => json!({"i": i}), Num::F(f) => json!({"f": format!("bits:{:016x}", f.to_bits()), "approx": format!("{:e}", f)}) } }
fn as_f(n: Num) -> f64 { match n { Num::I(i) => i as f64, Num::F(f) => f } }

fn float_mod_expected(a: f64, b: f64) -> f64 {
    // CPython float_rem: fmod, then adjust when the signs differ
    let r = a % b;
    if r != 0.0 && ((r < 0.0) != (b < 0.0)) { r + b } else { r }
}
/// the statement's clauses for float %: sign of divisor (or zero), magnitude below |b|
fn float_mod_ok(res: f64, a: f64, b: f64) -> (bool, String) {
    if !(a.is_finite() && b.is_finite()) { return (true, "non-finite operands: outside the statement".into()); }
    let sign_ok = res == 0.0 || ((res > 0.0) == (b > 0.0));
    let mag_ok = res.abs() < b.abs();
    let exact = res == float_mod_expected(a, b) || (res == 0.0 && float_mod_expected(a, b) == 0.0);
    (sign_ok && mag_ok && exact && res.is_finite(),
     format!("sign rule {}, |res| < |b| {}, equals fmod-then-adjust {}", sign_ok, mag_ok, exact))
}

// ------------------------------------------------------------------------------------------------

pub fn call(oracle: &str, v: &Value) -> Value {
    match oracle {
        "core::py_mod_i64_impl" | "core::py_floor_div_i64_impl" | "stdlib::py_mod_i64" | "stdlib::py_floor_div_i64" => {
            let (a, b) = (gi(v, "a"), gi(v, "b"));
            let is_mod = oracle.contains("mod");
            let is_core = oracle.starts_with("core");
            if b == 0 && is_core { return verdict(true, json!(null), json!(null), v, "b == 0 is outside the kernel's precondition"); }
            if !is_mod && a == i64::MIN && b == -1 { return verdict(true, json!(null), json!(null), v, "i64::MIN // -1 is excluded by the statement"); }
            let r = guarded(|| match oracle {
                "core::py_mod_i64_impl" => incan_core::py_mod_i64_impl(a, b),
                "core::py_floor_div_i64_impl" => incan_core::py_floor_div_i64_impl(a, b),
                "stdlib::py_mod_i64" => incan_stdlib::num::py_mod_i64(a, b),
                _ => incan_stdlib::num::py_floor_div_i64(a, b),
            });
            if b == 0 {
                let ok = matches!(&r, Err(m) if m == ZERO_DIV);
                return verdict(ok, res_json(r), json!({"panicked": ZERO_DIV}), v, "zero divisor must raise the canonical error");
            }
            let exp = if is_mod { py_rem(a as i128, b as i128) } else { py_floor(a as i128, b as i128) };
            let ok = matches!(&r, Ok(x) if *x as i128 == exp);
            verdict(ok, res_json(r), json!({"returned": exp as i64}), v, if is_mod { "a % b (sign of divisor, a == (a//b)*b + a%b)" } else { "a // b (floor)" })
        }
        "stdlib::py_mod" | "stdlib::py_floor_div" | "stdlib::py_div" => {
            let (l, r) = (gnum(v, "l"), gnum(v, "r"));
            let rz = match r { Num::I(i) => i == 0, Num::F(f) => f == 0.0 };
            use incan_stdlib::num::{py_div, py_floor_div, py_mod};
            let got: Result<Num, String> = guarded(|| match (oracle, l, r) {
                ("stdlib::py_mod", Num::I(a), Num::I(b)) => Num::I(py_mod(a, b)),
                ("stdlib::py_mod", Num::I(a), Num::F(b)) => Num::F(py_mod(a, b)),
                ("stdlib::py_mod", Num::F(a), Num::I(b)) => Num::F(py_mod(a, b)),
                ("stdlib::py_mod", Num::F(a), Num::F(b)) => Num::F(py_mod(a, b)),
                ("stdlib::py_floor_div", Num::I(a), Num::I(b)) => Num::I(py_floor_div(a, b)),
                ("stdlib::py_floor_div", Num::I(a), Num::F(b)) => Num::F(py_floor_div(a, b)),
                ("stdlib::py_floor_div", Num::F(a), Num::I(b)) => Num::F(py_floor_div(a, b)),
                ("stdlib::py_floor_div", Num::F(a), Num::F(b)) => Num::F(py_floor_div(a, b)),
                (_, Num::I(a), Num::I(b)) => Num::F(py_div(a, b)),
                (_, Num::I(a), Num::F(b)) => Num::F(py_div(a, b)),
                (_, Num::F(a), Num::I(b)) => Num::F(py_div(a, b)),
                (_, Num::F(a), Num::F(b)) => Num::F(py_div(a, b)),
            });
            let obs = match &got { Ok(n) => json!({"returned": num_json(*n)}), Err(m) => json!({"panicked": m}) };
            if rz {
                let ok = matches!(&got, Err(m) if m == ZERO_DIV);
                return verdict(ok, obs, json!({"panicked": ZERO_DIV}), v, "zero divisor must raise the canonical error");
            }
            if let (Num::I(a), Num::I(b)) = (l, r) {
                if oracle != "stdlib::py_div" {
                    if oracle == "stdlib::py_floor_div" && a == i64::MIN && b == -1 { return verdict(true, obs, json!(null), v, "excluded"); }
                    let exp = if oracle == "stdlib::py_mod" { py_rem(a as i128, b as i128) } else { py_floor(a as i128, b as i128) };
                    let ok = matches!(&got, Ok(Num::I(x)) if *x as i128 == exp);
                    return verdict(ok, obs, json!({"returned": {"i": exp as i64}}), v, "int op int");
                }
            }
            let (a, b) = (as_f(l), as_f(r));
            if !(a.is_finite() && b.is_finite()) { return verdict(true, obs, json!(null), v, "non-finite: outside the statement"); }
            match (oracle, &got) {
                ("stdlib::py_div", Ok(Num::F(x))) => { let e = a / b; verdict(x.to_bits() == e.to_bits() || (x.is_nan() && e.is_nan()), obs, json!({"returned": fj(e)}), v, "IEEE quotient of the promoted operands") }
                ("stdlib::py_floor_div", Ok(Num::F(x))) => { let e = (a / b).floor(); verdict(x.to_bits() == e.to_bits() || (x.is_nan() && e.is_nan()), obs, json!({"returned": fj(e)}), v, "floor of the float quotient") }
                ("stdlib::py_mod", Ok(Num::F(x))) => { let (ok, why) = float_mod_ok(*x, a, b); with_class(verdict(ok, obs, json!({"returned": fj(float_mod_expected(a, b)), "clauses": why}), v, "float % : sign of divisor, magnitude below |b|"), fmod_class(*x, b)) }
                _ => verdict(false, obs, json!("a float result"), v, "no other failure is permitted"),
            }
        }
        "core::py_mod_f64_impl" | "stdlib::py_mod_f64" | "stdlib::py_floor_div_f64" => {
            let (a, b) = (gf(v, "a"), gf(v, "b"));
            let is_core = oracle.starts_with("core");
            if b == 0.0 && is_core { return verdict(true, json!(null), json!(null), v, "b == 0 outside the kernel's precondition"); }
            let got = guarded(|| match oracle {
                "core::py_mod_f64_impl" => incan_core::py_mod_f64_impl(a, b),
                "stdlib::py_mod_f64" => incan_stdlib::num::py_mod_f64(a, b),
                _ => incan_stdlib::num::py_floor_div_f64(a, b),
            });
            let obs = match &got { Ok(x) => json!({"returned": fj(*x)}), Err(m) => json!({"panicked": m}) };
            if b == 0.0 {
                let ok = matches!(&got, Err(m) if m == ZERO_DIV);
                return verdict(ok, obs, json!({"panicked": ZERO_DIV}), v, "zero divisor must raise the canonical error");
            }
            if !(a.is_finite() && b.is_finite()) { return verdict(true, obs, json!(null), v, "non-finite: outside the statement"); }
            match &got {
                Ok(x) if oracle.contains("mod") => { let (ok, why) = float_mod_ok(*x, a, b); with_class(verdict(ok, obs, json!({"returned": fj(float_mod_expected(a, b)), "clauses": why}), v, "float % : sign of divisor, magnitude below |b|"), fmod_class(*x, b)) }
                Ok(x) => { let e = (a / b).floor(); verdict(x.to_bits() == e.to_bits(), obs, json!({"returned": fj(e)}), v, "floor of the float quotient") }
                Err(_) => verdict(false, obs, json!("a float result"), v, "no other failure is permitted"),
            }
        }
        "core::str_char_at" | "stdlib::str_index" => {
            let (s, i) = (gs(v, "s"), gi(v, "i"));
            let chars: Vec<char> = s.chars().collect();
            let exp = py_index(chars.len() as i128, i as i128).map(|k| chars[k as usize].to_string());
            if oracle == "core::str_char_at" {
                let got = guarded(|| incan_core::strings::str_char_at(&s, i).map_err(|e| format!("{:?}", e)));
                let obs = match &got { Ok(Ok(t)) => json!({"returned": {"Ok": t}}), Ok(Err(e)) => json!({"returned": {"Err": e}}), Err(m) => json!({"panicked": m}) };
                let (ok, e) = match (&exp, &got) {
                    (Some(t), Ok(Ok(g))) => (t == g, json!({"returned": {"Ok": t}})),
                    (Some(t), _) => (false, json!({"returned": {"Ok": t}})),
                    (None, Ok(Err(e))) => (e == "IndexOutOfRange", json!({"returned": {"Err": "IndexOutOfRange"}})),
                    (None, _) => (false, json!({"returned": {"Err": "IndexOutOfRange"}})),
                };
                verdict(ok, obs, e, v, "s[i] over Unicode scalars")
            } else {
                let got = guarded(|| incan_stdlib::strings::str_index(&s, i));
                let obs = res_json(got.clone());
                let (ok, e) = match (&exp, &got) {
                    (Some(t), Ok(g)) => (t == g, json!({"returned": t})),
                    (Some(t), _) => (false, json!({"returned": t})),
                    (None, Err(m)) => (m == "IndexError: string index out of range", json!({"panicked": "IndexError: string index out of range"})),
                    (None, _) => (false, json!({"panicked": "IndexError: string index out of range"})),
                };
                verdict(ok, obs, e, v, "s[i] over Unicode scalars")
            }
        }
        "core::str_slice" | "stdlib::str_slice" => {
            let s = gs(v, "s");
            let (st, en, sp) = (go(v, "start"), go(v, "end"), go(v, "step"));
            let chars: Vec<char> = s.chars().collect();
            let exp: Option<String> = if sp == Some(0) { None } else { Some(py_slice(&chars, o128(st), o128(en), sp.unwrap_or(1) as i128).into_iter().collect()) };
            if oracle == "core::str_slice" {
                let got = guarded(|| incan_core::strings::str_slice(&s, st, en, sp).map_err(|e| format!("{:?}", e)));
                let obs = match &got { Ok(Ok(t)) => json!({"returned": {"Ok": t}}), Ok(Err(e)) => json!({"returned": {"Err": e}}), Err(m) => json!({"panicked": m}) };
                let (ok, e) = match (&exp, &got) {
                    (Some(t), Ok(Ok(g))) => (t == g, json!({"returned": {"Ok": t}})),
                    (Some(t), _) => (false, json!({"returned": {"Ok": t}})),
                    (None, Ok(Err(e))) => (e == "SliceStepZero", json!({"returned": {"Err": "SliceStepZero"}})),
                    (None, _) => (false, json!({"returned": {"Err": "SliceStepZero"}})),
                };
                verdict(ok, obs, e, v, "s[start:end:step] over Unicode scalars")
            } else {
                let got = guarded(|| incan_stdlib::strings::str_slice(&s, st, en, sp));
                let obs = res_json(got.clone());
                let msg = "ValueError: slice step cannot be zero";
                let (ok, e) = match (&exp, &got) {
                    (Some(t), Ok(g)) => (t == g, json!({"returned": t})),
                    (Some(t), _) => (false, json!({"returned": t})),
                    (None, Err(m)) => (m == msg, json!({"panicked": msg})),
                    (None, _) => (false, json!({"panicked": msg})),
                };
                verdict(ok, obs, e, v, "s[start:end:step] over Unicode scalars")
            }
        }
        "stdlib::list_get" | "stdlib::list_get_mut" => {
            let (l, i) = (gl(v, "list"), gi(v, "i"));
            let exp = py_index(l.len() as i128, i as i128).map(|k| l[k as usize]);
            let got = guarded(|| if oracle.ends_with("mut") {
                let mut m = l.clone();
                let before = m.clone();
                let r = incan_stdlib::collections::list_get_mut(&mut m, i);
                let val = *r;
                *r = val.wrapping_add(1000003);
                // frame: exactly one element changed, and it is the expected one
                let changed: Vec<usize> = (0..m.len()).filter(|&k| m[k] != before[k]).collect();
                (val, changed)
            } else { (*incan_stdlib::collections::list_get(&l, i), vec![]) });
            let msg = format!("IndexError: index {} out of range for list of length {}", i, l.len());
            let obs = match &got { Ok((x, ch)) => json!({"returned": x, "positions_written": ch}), Err(m) => json!({"panicked": m}) };
            let (ok, e) = match (&exp, &got) {
                (Some(t), Ok((g, ch))) => (t == g && (!oracle.ends_with("mut") || *ch == vec![py_index(l.len() as i128, i as i128).unwrap() as usize]), json!({"returned": t})),
                (Some(t), _) => (false, json!({"returned": t})),
                (None, Err(m)) => (*m == msg, json!({"panicked": msg})),
                (None, _) => (false, json!({"panicked": msg})),
            };
            verdict(ok, obs, e, v, "list[i]")
        }
        "stdlib::list_slice" => {
            let l = gl(v, "list");
            let (st, en, sp) = (go(v, "start"), go(v, "end"), go(v, "step"));
            let exp = if sp == Some(0) { None } else { Some(py_slice(&l, o128(st), o128(en), sp.unwrap_or(1) as i128)) };
            let got = guarded(|| incan_stdlib::collections::list_slice(&l, st, en, sp));
            let msg = "ValueError: slice step cannot be zero";
            let obs = match &got { Ok(x) => json!({"returned": x}), Err(m) => json!({"panicked": m}) };
            let (ok, e) = match (&exp, &got) {
                (Some(t), Ok(g)) => (t == g, json!({"returned": t})),
                (Some(t), _) => (false, json!({"returned": t})),
                (None, Err(m)) => (m == msg, json!({"panicked": msg})),
                (None, _) => (false, json!({"panicked": msg})),
            };
            verdict(ok, obs, e, v, "list[start:end:step]")
        }
        "stdlib::dict_get" => {
            let keys = gl(v, "keys");
            let key = gi(v, "key");
            let m: HashMap<i64, i64> = keys.iter().map(|k| (*k, k.wrapping_mul(31).wrapping_add(7))).collect();
            let got = guarded(|| *incan_stdlib::collections::dict_get(&m, &key));
            let msg = format!("KeyError: '{}' not found in dict", key);
            let obs = res_json(got.clone());
            let (ok, e) = if m.contains_key(&key) {
                (matches!(&got, Ok(x) if *x == m[&key]), json!({"returned": m[&key]}))
            } else { (matches!(&got, Err(mm) if *mm == msg), json!({"panicked": msg})) };
            verdict(ok, obs, e, v, "dict[key]")
        }
        "stdlib::dict_get_str" => {
            let key = gs(v, "key");
            let present = v["present"].as_bool().unwrap_or(false);
            let mut m: HashMap<String, i64> = HashMap::new();
            m.insert("other".to_string(), 1);
            if present { m.insert(key.clone(), 42); }
            let got = guarded(|| *incan_stdlib::collections::dict_get(&m, &key));
            let msg = format!("KeyError: '{}' not found in dict", key);
            let obs = res_json(got.clone());
            let (ok, e) = if m.contains_key(&key) { (matches!(&got, Ok(42)) || key == "other", json!({"returned": 42})) } else { (matches!(&got, Err(mm) if *mm == msg), json!({"panicked": msg})) };
            verdict(ok, obs, e, v, "dict[key] with a string key: value, or KeyError echoing the whole key")
        }
        "stdlib::range" => {
            let (a, b, c) = (gi(v, "a"), gi(v, "b"), gi(v, "c"));
            let cap = 64usize;
            let got = guarded(|| { let mut it = incan_stdlib::iter::range(a, b, c); let mut out = Vec::new(); while out.len() < cap + 2 { match it.next() { Some(x) => out.push(x), None => break } } out });
            let msg = "ValueError: range() arg 3 must not be zero";
            let obs = match &got { Ok(x) => json!({"first_items": x}), Err(m) => json!({"panicked": m}) };
            if c == 0 {
                return verdict(matches!(&got, Err(m) if m == msg), obs, json!({"panicked": msg}), v, "range(a, b, 0)");
            }
            let (exp, n) = range_seq(a as i128, b as i128, c as i128, cap + 2);
            let mut ok = matches!(&got, Ok(g) if g.iter().map(|x| *x as i128).collect::<Vec<_>>() == exp);
            // the other consumers of the iterator protocol: `collect()` (used by comprehensions; trusts size_hint) and size_hint itself
            if ok && n <= 1000 {
                let col = guarded(|| incan_stdlib::iter::range(a, b, c).collect::<Vec<i64>>());
                let hint = guarded(|| { let mut it = incan_stdlib::iter::range(a, b, c); let h0 = it.size_hint(); let _ = it.next(); (h0, it.size_hint()) });
                let (full, _) = range_seq(a as i128, b as i128, c as i128, 1001);
                let col_ok = matches!(&col, Ok(g) if g.iter().map(|x| *x as i128).collect::<Vec<_>>() == full);
                let hint_ok = matches!(&hint, Ok(((lo0, hi0), (lo1, hi1))) if *lo0 as i128 <= n && hi0.map_or(true, |h| h as i128 >= n)
                    && *lo1 as i128 <= (n - 1).max(0) && hi1.map_or(true, |h| h as i128 >= (n - 1).max(0)));
                if !col_ok || !hint_ok {
                    ok = false;
                    return verdict(false, json!({"collect": match &col { Ok(g) => json!(g), Err(m) => json!({"panicked": m}) }, "size_hint_before_and_after_one_next": match &hint { Ok(h) => json!([[h.0.0, h.0.1], [h.1.0, h.1.1]]), Err(m) => json!({"panicked": m}) }}),
                                   json!({"collect": full.iter().map(|x| *x as i64).collect::<Vec<_>>(), "size_hint": "lower <= remaining <= upper"}), v, "range(a, b, c) consumed by collect(): same items, no other failure");
                }
            }
            verdict(ok, obs, json!({"first_items": exp.iter().map(|x| *x as i64).collect::<Vec<_>>(), "total_len": n.to_string()}), v, "range(a, b, c), first items and termination")
        }
        "core::policy" => policy(v),
        _ => json!({"error": format!("unknown oracle {}", oracle)}),
    }
}

// ------------------------------------------------------------------------------------------------
// C07 policy table (from the statement)
fn policy(v: &Value) -> Value {
    use incan_core::{NumericOp as O, NumericTy as T, PowExponentKind as K};
    let ops = [O::Add, O::Sub, O::Mul, O::Div, O::FloorDiv, O::Mod, O::Pow, O::Eq, O::NotEq, O::Lt, O::LtEq, O::Gt, O::GtEq];
    let tys = [T::Int, T::Float];
    let ks = [None, Some(K::NonNegativeIntLiteral), Some(K::NegativeIntLiteral), Some(K::Variable), Some(K::Float)];
    let (oi, li, ri, ki) = (gi(v, "op") as usize, gi(v, "l") as usize, gi(v, "r") as usize, gi(v, "k") as usize);
    let (op, l, r, k) = (ops[oi], tys[li], tys[ri], ks[ki]);
    let table = match op {
        O::Div => T::Float,
        O::Pow => if l == T::Int && r == T::Int && k == Some(K::NonNegativeIntLiteral) { T::Int } else { T::Float },
        _ => if l == T::Float || r == T::Float { T::Float } else { T::Int },
    };
    let got = guarded(|| (incan_core::result_numeric_type(op, l, r, k), incan_core::needs_float_promotion(op, l, r, k)));
    let expp = (table == T::Float && l == T::Int, table == T::Float && r == T::Int);
    let ok = matches!(&got, Ok((t, p)) if *t == table && *p == expp);
    verdict(ok, match &got { Ok((t, p)) => json!({"type": format!("{:?}", t), "promote": [p.0, p.1]}), Err(m) => json!({"panicked": m}) },
            json!({"type": format!("{:?}", table), "promote": [expp.0, expp.1]}),
            &{ let mut a = v.clone(); a["names"] = json!({"op": format!("{:?}", op), "l": format!("{:?}", l), "r": format!("{:?}", r), "k": format!("{:?}", k)}); a }, "numeric result type table")
}

// ------------------------------------------------------------------------------------------------
// search: boundary grid first, then pseudo-random

struct Rng(u64);
impl Rng {
    fn next(&mut self) -> u64 { self.0 ^= self.0 << 13; self.0 ^= self.0 >> 7; self.0 ^= self.0 << 17; self.0 }
    fn below(&mut self, n: u64) -> u64 { self.next() % n }
}
const GRID: &[i64] = &[i64::MIN, i64::MIN + 1, i64::MIN + 2, -(1 << 62), -4611686018427387905, -1000, -7, -5, -4, -3, -2, -1, 0, 1, 2, 3, 4, 5, 7, 1000,
    1 << 62, 4611686018427387905, i64::MAX - 2, i64::MAX - 1, i64::MAX];
const FGRID: &[f64] = &[0.0, -0.0, 1.0, -1.0, 2.0, -2.0, 3.0, -3.0, 0.5, -0.5, 7.0, -7.0, 1e-20, -1e-20, 1e300, -1e300, 5e-324, -5e-324,
    f64::MAX, f64::MIN, f64::MIN_POSITIVE, 4.0, -4.0, 1e16, -1e16, 9007199254740993.0, 0.1, -0.3, 2.5, -2.5];
const STRS: &[&str] = &["", "a", "ab", "abc", "abcd", "héllo", "é", "日本語", "a😀b", "😀", "\n", "a\r\nb", "ééé", "abcdefgh",
    "¿Qué?", "ÿ", "a¿", "\u{7ff}\u{800}", "\u{ffff}x", "\u{10000}\u{10ffff}", "\u{bf}\u{80}\u{a0}", "߿¿ÿ"];
const POOL: &[char] = &['a', 'b', 'z', 'é', '日', '😀', '¿', 'ÿ', '\u{7ff}', '\u{800}', '\u{ffff}', '\u{10000}', '\u{10ffff}', '\n', '\u{80}', '\u{bf}'];
/// a random string over all UTF-8 encoding lengths (pool characters and arbitrary scalars)
fn rstr(r: &mut Rng) -> String {
    if r.below(3) == 0 { return STRS[r.below(STRS.len() as u64) as usize].to_string(); }
    let n = r.below(7);
    (0..n).map(|_| if r.below(2) == 0 { POOL[r.below(POOL.len() as u64) as usize] } else { char::from_u32((r.next() % 0x110000) as u32).unwrap_or('x') }).collect()
}

fn rint(r: &mut Rng) -> i64 {
    match r.below(4) { 0 => GRID[r.below(GRID.len() as u64) as usize], 1 => (r.below(21) as i64) - 10, 2 => r.next() as i64, _ => GRID[r.below(GRID.len() as u64) as usize].wrapping_add((r.below(7) as i64) - 3) }
}
fn ropt(r: &mut Rng) -> Value { if r.below(4) == 0 { Value::Null } else { json!(rint(r)) } }
fn rf(r: &mut Rng) -> f64 {
    match r.below(3) { 0 => FGRID[r.below(FGRID.len() as u64) as usize], 1 => ((r.below(2001) as f64) - 1000.0) / 8.0, _ => { let x = f64::from_bits(r.next()); if x.is_finite() { x } else { 1.5 } } }
}
fn fbits(x: f64) -> Value { json!(format!("bits:{:016x}", x.to_bits())) }
fn rnum(r: &mut Rng) -> Value { if r.below(2) == 0 { json!({"i": rint(r)}) } else { json!({"f": fbits(rf(r))}) } }
fn rlist(r: &mut Rng) -> Value { let n = r.below(6); json!((0..n).map(|k| (k as i64) * 10 + 1).collect::<Vec<_>>()) }

fn gen_case(oracle: &str, r: &mut Rng, n: u64) -> Value {
    let g = GRID.len() as u64;
    match oracle {
        "core::py_mod_i64_impl" | "core::py_floor_div_i64_impl" | "stdlib::py_mod_i64" | "stdlib::py_floor_div_i64" => {
            if n < g * g { json!({"a": GRID[(n / g) as usize], "b": GRID[(n % g) as usize]}) } else { json!({"a": rint(r), "b": rint(r)}) }
        }
        "stdlib::py_mod" | "stdlib::py_floor_div" | "stdlib::py_div" => {
            let tot = g + FGRID.len() as u64;
            let pick = |k: u64| if k < g { json!({"i": GRID[k as usize]}) } else { json!({"f": fbits(FGRID[(k - g) as usize])}) };
            if n < tot * tot { json!({"l": pick(n / tot), "r": pick(n % tot)}) } else { json!({"l": rnum(r), "r": rnum(r)}) }
        }
        "core::py_mod_f64_impl" | "stdlib::py_mod_f64" | "stdlib::py_floor_div_f64" => {
            let f = FGRID.len() as u64;
            if n < f * f { json!({"a": fbits(FGRID[(n / f) as usize]), "b": fbits(FGRID[(n % f) as usize])}) } else { json!({"a": fbits(rf(r)), "b": fbits(rf(r))}) }
        }
        "core::str_char_at" | "stdlib::str_index" => {
            let s = STRS.len() as u64;
            if n < s * g { json!({"s": STRS[(n / g) as usize], "i": GRID[(n % g) as usize]}) } else { json!({"s": rstr(r), "i": rint(r)}) }
        }
        "core::str_slice" | "stdlib::str_slice" => json!({"s": rstr(r), "start": ropt(r), "end": ropt(r), "step": ropt(r)}),
        "stdlib::dict_get_str" => {
            // string keys of very different lengths (the KeyError text must echo the WHOLE key)
            let len = match r.below(4) { 0 => r.below(4), 1 => r.below(40), 2 => 60 + r.below(10), _ => r.below(400) };
            let key: String = (0..len).map(|k| if r.below(8) == 0 { POOL[r.below(POOL.len() as u64) as usize] } else { (b'a' + ((k + r.below(3)) % 26) as u8) as char }).collect();
            let present = r.below(3) == 0;
            json!({"key": key, "present": present})
        }
        "stdlib::list_get" | "stdlib::list_get_mut" => json!({"list": rlist(r), "i": rint(r)}),
        "stdlib::list_slice" => json!({"list": rlist(r), "start": ropt(r), "end": ropt(r), "step": ropt(r)}),
        "stdlib::dict_get" => json!({"keys": (0..r.below(5)).map(|_| rint(r)).collect::<Vec<_>>(), "key": rint(r)}),
        "stdlib::range" => { if n < g * g * g { json!({"a": GRID[(n / (g * g)) as usize], "b": GRID[((n / g) % g) as usize], "c": GRID[(n % g) as usize]}) } else { json!({"a": rint(r), "b": rint(r), "c": rint(r)}) } }
        "core::policy" => json!({"op": n % 13, "l": (n / 13) % 2, "r": (n / 26) % 2, "k": (n / 52) % 5}),
        _ => Value::Null,
    }
}

pub fn search(oracle: &str, seed: u64, budget: u64, skip: &[String]) -> Value {
    let mut r = Rng(seed.wrapping_mul(0x9E3779B97F4A7C15) | 1);
    let mut tried = 0u64;
    for n in 0..budget {
        let a = gen_case(oracle, &mut r, n);
        if a.is_null() { return json!({"found": false, "error": "no generator"}); }
        let v = call(oracle, &a);
        tried += 1;
        if v.get("error").is_some() { return v; }
        if v["ok"] == json!(false) {
            if let Some(c) = v.get("class").and_then(|c| c.as_str()) { if skip.iter().any(|s| s == c) { continue; } }
            return json!({"found": true, "tried": tried, "case": v});
        }
    }
    json!({"found": false, "tried": tried})
}
