use vstd::prelude::*;
use vstd::string::*;
use core::str::CharIndices;
verus! {

// ---------- trusted model of UTF-8 strings and CharIndices ----------
pub open spec fn utf8_len(c: char) -> int { vstd::utf8::encode_scalar(c as u32).len() as int }
pub broadcast axiom fn axiom_utf8_len(c: char)
    ensures 1 <= #[trigger] utf8_len(c) <= 4;

pub open spec fn byte_off(s: Seq<char>, k: int) -> int
    decreases k
{
    if k <= 0 { 0 } else { byte_off(s, k - 1) + utf8_len(s[k - 1]) }
}

#[verifier::external_type_specification]
#[verifier::external_body]
pub struct ExCharIndices<'a>(CharIndices<'a>);

pub uninterp spec fn ci_seq(it: &CharIndices) -> Seq<char>;
pub uninterp spec fn ci_pos(it: &CharIndices) -> int;

pub assume_specification<'a>[str::char_indices](s: &'a str) -> (it: CharIndices<'a>)
    ensures ci_seq(&it) == s@, ci_pos(&it) == 0;

pub assume_specification<'a>[<CharIndices<'a> as Iterator>::next](it: &mut CharIndices<'a>) -> (r: Option<(usize, char)>)
    ensures
        ci_seq(final(it)) == ci_seq(old(it)),
        ci_pos(old(it)) < ci_seq(old(it)).len() ==> {
            &&& r == Some((byte_off(ci_seq(old(it)), ci_pos(old(it))) as usize, ci_seq(old(it))[ci_pos(old(it))]))
            &&& ci_pos(final(it)) == ci_pos(old(it)) + 1
        },
        ci_pos(old(it)) >= ci_seq(old(it)).len() ==> r.is_none() && ci_pos(final(it)) == ci_pos(old(it));


#[derive(PartialEq, Eq)]
pub struct Position { pub line: u32, pub character: u32 }
impl Position { pub fn new(line: u32, character: u32) -> (r: Position) ensures r.line == line, r.character == character { Position { line, character } } }

/// (line, col) of the k-th character boundary: count newlines / characters since last newline in s[0..k]
pub open spec fn pos_of(s: Seq<char>, k: int) -> (int, int)
    decreases k
{
    if k <= 0 { (0, 0) } else {
        let p = pos_of(s, k - 1);
        if s[k - 1] == '\n' { (p.0 + 1, 0) } else { (p.0, p.1 + 1) }
    }
}
pub open spec fn lex_lt(a: (int,int), b: (int,int)) -> bool { a.0 < b.0 || (a.0 == b.0 && a.1 < b.1) }

pub proof fn lemma_pos_of_bounds(s: Seq<char>, k: int)
    requires 0 <= k <= s.len()
    ensures 0 <= pos_of(s,k).0 <= k, 0 <= pos_of(s,k).1 <= k, pos_of(s,k).0 + pos_of(s,k).1 <= k
    decreases k
{ if k > 0 { lemma_pos_of_bounds(s, k-1); } }

pub proof fn lemma_pos_of_strict_mono(s: Seq<char>, i: int, j: int)
    requires 0 <= i < j <= s.len()
    ensures lex_lt(pos_of(s,i), pos_of(s,j))
    decreases j - i
{
    lemma_pos_of_bounds(s, j-1);
    if i < j - 1 { lemma_pos_of_strict_mono(s, i, j-1); }
}

pub proof fn lemma_byte_off_mono(s: Seq<char>, i: int, j: int)
    requires 0 <= i <= j <= s.len()
    ensures byte_off(s,i) <= byte_off(s,j), i < j ==> byte_off(s,i) < byte_off(s,j), 0 <= byte_off(s, i)
    decreases j
{
    broadcast use axiom_utf8_len;
    if i < j { lemma_byte_off_mono(s, i, j-1); } else { if j > 0 { lemma_byte_off_mono(s, 0, j - 1); lemma_byte_off_mono(s, j-1, j-1);} }
}



pub open spec fn is_boundary(s: Seq<char>, b: int) -> bool { exists|k: int| 0 <= k <= s.len() && #[trigger] byte_off(s, k) == b }

#[verifier::external_body]
pub fn str_from<'a>(s: &'a str, a: usize) -> (r: &'a str)
    requires is_boundary(s@, a as int)
    ensures forall|k: int| 0 <= k <= s@.len() && byte_off(s@, k) == a ==> r@ == s@.subrange(k, s@.len() as int)
{ &s[a..] }

#[verifier::external_body]
pub fn str_range<'a>(s: &'a str, a: usize, b: usize) -> (r: &'a str)
    requires is_boundary(s@, a as int), is_boundary(s@, b as int), a <= b
    ensures forall|k: int, m: int| 0 <= k <= m <= s@.len() && byte_off(s@, k) == a && byte_off(s@, m) == b ==> r@ == s@.subrange(k, m)
{ &s[a..b] }

#[verifier::external_body]
pub fn str_find_char(s: &str, c: char) -> (r: Option<usize>)
    ensures
        match r {
            Some(i) => exists|k: int| 0 <= k < s@.len() && byte_off(s@, k) == i && s@[k] == c && (forall|j: int| 0 <= j < k ==> s@[j] != c),
            None => forall|j: int| 0 <= j < s@.len() ==> s@[j] != c,
        }
{ s.find(c) }

fn get_line_info(source: &str, offset: usize) -> (r: (usize, usize, &str))
    requires byte_off(source@, source@.len() as int) <= usize::MAX - 1,
    ensures r.1 >= 1,
{
    let offset = offset.min(source.len());
    let mut line_num = 1;
    let mut line_start = 0;

    let mut it = source.char_indices();
    loop
        invariant ci_seq(&it) == source@, 0 <= ci_pos(&it) <= source@.len(),
        decreases source@.len() - ci_pos(&it)
    {
        match it.next() {
            Some((i, c)) => {
        if i >= offset {
            break;
        }
        if c == '\n' {
            line_num += 1;
            line_start = i + 1;
        }
            }
            None => break,
        }
    }

    let line_end = str_find_char(str_from(source, line_start), '\n')
        .map(|i| line_start + i)
        .unwrap_or(source.len());

    let line_text = str_range(source, line_start, line_end);
    let col_num = offset - line_start + 1;

    (line_num, col_num, line_text)
}
}
fn main() {}
