use vstd::prelude::*;
use vstd::std_specs::iter::IteratorSpec;
use core::str::Chars;
verus! {
pub assume_specification<'a>[<Chars<'a> as Iterator>::count](it: Chars<'a>) -> (r: usize)
    ensures r == it.remaining().len();

#[verifier::external_body]
pub fn __iter_nth<'a>(it: Chars<'a>, n: usize) -> (r: Option<char>)
    ensures r == (if n < it.remaining().len() { Some(it.remaining()[n as int]) } else { None::<char> })
{ let mut it = it; it.nth(n) }

// vstd already specifies the blanket ToString::to_string via the uninterpreted predicate
// vstd::string::to_string_from_display_ensures; the one trusted fact added is what Display for char prints.
pub broadcast axiom fn axiom_display_char(c: &char, res: String)
    ensures #[trigger] vstd::string::to_string_from_display_ensures::<char>(c, res) ==> res@ == seq![*c];

pub enum StringAccessError { IndexOutOfRange, SliceStepZero }

pub fn str_len(s: &str) -> (r: usize) ensures r == s@.len() {
    s.chars().count()
}

fn normalize_index(len: usize, idx: i64) -> (r: Option<usize>)
    requires len <= i64::MAX
    ensures r == (if idx >= 0 { if idx < len { Some(idx as usize) } else { None::<usize> } } else { if idx + len >= 0 { Some((idx + len) as usize) } else { None::<usize> } })
{
    if len == 0 {
        return None;
    }
    let len_i = len as i64;
    let mut i = idx;
    if i < 0 {
        i += len_i;
    }
    if i < 0 || i >= len_i { None } else { Some(i as usize) }
}

pub fn str_char_at(s: &str, idx: i64) -> (r: Result<String, StringAccessError>)
    requires s@.len() <= i64::MAX
    ensures match r { Ok(t) => exists|k: int| 0 <= k < s@.len() && t@ == seq![s@[k]], Err(e) => true }
{
    broadcast use axiom_display_char;
    let len = str_len(s);
    let Some(pos) = normalize_index(len, idx) else {
        return Err(StringAccessError::IndexOutOfRange);
    };
    let ch = __iter_nth(s.chars(), pos).expect("index normalized to bounds");
    Ok(ch.to_string())
}
}
fn main() {}
