use vstd::prelude::*;
verus! {

// ---------- Python slice semantics (Language Reference 3.2 "Sequences", PySlice_AdjustIndices) ----------
pub open spec fn opt_int(o: Option<i64>) -> Option<int> { match o { Some(v) => Some(v as int), None => None } }

/// bound normalisation for one slice bound
pub open spec fn py_adjust_bound(len: int, b: Option<int>, step: int, is_start: bool) -> int {
    match b {
        None => if step > 0 { if is_start { 0 } else { len } } else { if is_start { len - 1 } else { -1 } },
        Some(v) => {
            if v < 0 {
                let w = v + len;
                if w < 0 { if step < 0 { -1 } else { 0 } } else { w }
            } else {
                if v >= len { if step < 0 { len - 1 } else { len } } else { v }
            }
        }
    }
}

/// "the items with index i, i+k, i+2k, ... stopping when j is reached (but never including j)"
pub open spec fn py_take<T>(s: Seq<T>, i: int, j: int, k: int) -> Seq<T>
    decreases (if k > 0 && i < j { j - i } else if k < 0 && i > j { i - j } else { 0 })
{
    if k > 0 && i < j { seq![s[i]] + py_take(s, i + k, j, k) }
    else if k < 0 && i > j { seq![s[i]] + py_take(s, i + k, j, k) }
    else { Seq::empty() }
}

pub open spec fn py_slice<T>(s: Seq<T>, start: Option<int>, end: Option<int>, step: int) -> Seq<T> {
    py_take(s, py_adjust_bound(s.len() as int, start, step, true), py_adjust_bound(s.len() as int, end, step, false), step)
}

pub proof fn lemma_py_take_step<T>(s: Seq<T>, i: int, j: int, k: int)
    requires k != 0
    ensures
        (k > 0 && i < j) || (k < 0 && i > j) ==> py_take(s, i, j, k) == seq![s[i]] + py_take(s, i + k, j, k),
        !((k > 0 && i < j) || (k < 0 && i > j)) ==> py_take(s, i, j, k) == Seq::<T>::empty(),
{}

pub proof fn lemma_py_take_done<T>(s: Seq<T>, j: int, k: int)
    requires k != 0
    ensures forall|x: int| (k > 0 && x >= j) || (k < 0 && x <= j) ==> #[trigger] py_take(s, x, j, k) == Seq::<T>::empty(),
{}

pub assume_specification [i64::saturating_add] (a: i64, b: i64) -> (r: i64)
    ensures r as int == (if a + b > i64::MAX { i64::MAX as int } else if a + b < i64::MIN { i64::MIN as int } else { a + b });

pub enum StringAccessError { IndexOutOfRange, SliceStepZero }

pub fn str_slice(
    s: &str,
    start: Option<i64>,
    end: Option<i64>,
    step: Option<i64>,
) -> (res: Result<String, StringAccessError>)
    requires s@.len() <= i64::MAX,
    ensures
        (step == Some(0i64)) <==> res.is_err(),
        res.is_err() ==> res == Err::<String, StringAccessError>(StringAccessError::SliceStepZero),
        res matches Ok(o) ==> o@ == py_slice(s@, opt_int(start), opt_int(end), (if step.is_some() { step.unwrap() as int } else { 1 })),
{
    let step = step.unwrap_or(1);
    if step == 0 {
        return Err(StringAccessError::SliceStepZero);
    }

    let chars: Vec<char> = s.chars().collect();
    let len = chars.len() as i64;

    let default_start = if step > 0 { 0 } else { len - 1 };
    let default_end = if step > 0 { len } else { -1 };

    let mut start_idx = start.unwrap_or(default_start);
    let mut end_idx = end.unwrap_or(default_end);

    if start_idx < 0 {
        start_idx += len;
    }
    // Important: for negative steps, `end = None` uses the sentinel `-1` (not `len-1`).
    // Python's slice normalization keeps this sentinel as-is.
    if end.is_some() && end_idx < 0 {
        end_idx += len;
    }

    if step > 0 {
        start_idx = start_idx.clamp(0, len);
        end_idx = end_idx.clamp(0, len);
    } else {
        start_idx = start_idx.clamp(-1, len - 1);
        end_idx = end_idx.clamp(-1, len - 1);
    }

    let mut out = String::new();
    let mut i = start_idx;

    if step > 0 {
        while i < end_idx
            invariant
                step > 0, chars@ == s@, len == s@.len(), 0 <= i, 0 <= end_idx <= len,
                out@ + py_take(s@, i as int, end_idx as int, step as int) == py_take(s@, start_idx as int, end_idx as int, step as int),
            decreases (if i < end_idx { end_idx - i } else { 0 }),
        {
            proof { lemma_py_take_step(s@, i as int, end_idx as int, step as int); lemma_py_take_done(s@, end_idx as int, step as int); }
            let idx = i as usize;
            if let Some(ch) = chars.get(idx) {
                out.push(*ch);
            }
            i = i.saturating_add(step);
        }
    } else {
        while i > end_idx
            invariant
                step < 0, chars@ == s@, len == s@.len(), -1 <= end_idx, i <= len - 1,
                out@ + py_take(s@, i as int, end_idx as int, step as int) == py_take(s@, start_idx as int, end_idx as int, step as int),
            decreases (if i > end_idx { i - end_idx } else { 0 }),
        {
            proof { lemma_py_take_step(s@, i as int, end_idx as int, step as int); lemma_py_take_done(s@, end_idx as int, step as int); }
            let idx = i as usize;
            if let Some(ch) = chars.get(idx) {
                out.push(*ch);
            }
            i = i.saturating_add(step); // negative
        }
    }
    proof { lemma_py_take_done(s@, end_idx as int, step as int); }

    Ok(out)
}
}
fn main() {}
