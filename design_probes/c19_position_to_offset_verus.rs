use vstd::prelude::*;
use core::str::CharIndices;
verus! {

// ---------- trusted model of UTF-8 strings and CharIndices ----------
pub open spec fn utf8_len(c: char) -> int { vstd::utf8::encode_scalar(c as u32).len() as int }
pub broadcast axiom fn axiom_utf8_len(c: char)
    ensures 1 <= #[trigger] utf8_len(c) <= 4;

pub open spec fn byte_off(s: Seq<char>, k: int) -> int
    decreases k
{
    if k <= 0 { 0 } else { byte_off(s, k - 1) + utf8_len(s[k - 1]) }
}

#[verifier::external_type_specification]
#[verifier::external_body]
pub struct ExCharIndices<'a>(CharIndices<'a>);

pub uninterp spec fn ci_seq(it: &CharIndices) -> Seq<char>;
pub uninterp spec fn ci_pos(it: &CharIndices) -> int;

pub assume_specification<'a>[str::char_indices](s: &'a str) -> (it: CharIndices<'a>)
    ensures ci_seq(&it) == s@, ci_pos(&it) == 0;

pub assume_specification<'a>[<CharIndices<'a> as Iterator>::next](it: &mut CharIndices<'a>) -> (r: Option<(usize, char)>)
    ensures
        ci_seq(final(it)) == ci_seq(old(it)),
        ci_pos(old(it)) < ci_seq(old(it)).len() ==> {
            &&& r == Some((byte_off(ci_seq(old(it)), ci_pos(old(it))) as usize, ci_seq(old(it))[ci_pos(old(it))]))
            &&& ci_pos(final(it)) == ci_pos(old(it)) + 1
        },
        ci_pos(old(it)) >= ci_seq(old(it)).len() ==> r.is_none() && ci_pos(final(it)) == ci_pos(old(it));


#[derive(PartialEq, Eq)]
pub struct Position { pub line: u32, pub character: u32 }
impl Position { pub fn new(line: u32, character: u32) -> (r: Position) ensures r.line == line, r.character == character { Position { line, character } } }

/// (line, col) of the k-th character boundary: count newlines / characters since last newline in s[0..k]
pub open spec fn pos_of(s: Seq<char>, k: int) -> (int, int)
    decreases k
{
    if k <= 0 { (0, 0) } else {
        let p = pos_of(s, k - 1);
        if s[k - 1] == '\n' { (p.0 + 1, 0) } else { (p.0, p.1 + 1) }
    }
}
pub open spec fn lex_lt(a: (int,int), b: (int,int)) -> bool { a.0 < b.0 || (a.0 == b.0 && a.1 < b.1) }

pub proof fn lemma_pos_of_bounds(s: Seq<char>, k: int)
    requires 0 <= k <= s.len()
    ensures 0 <= pos_of(s,k).0 <= k, 0 <= pos_of(s,k).1 <= k, pos_of(s,k).0 + pos_of(s,k).1 <= k
    decreases k
{ if k > 0 { lemma_pos_of_bounds(s, k-1); } }

pub proof fn lemma_pos_of_strict_mono(s: Seq<char>, i: int, j: int)
    requires 0 <= i < j <= s.len()
    ensures lex_lt(pos_of(s,i), pos_of(s,j))
    decreases j - i
{
    lemma_pos_of_bounds(s, j-1);
    if i < j - 1 { lemma_pos_of_strict_mono(s, i, j-1); }
}

pub proof fn lemma_byte_off_mono(s: Seq<char>, i: int, j: int)
    requires 0 <= i <= j <= s.len()
    ensures byte_off(s,i) <= byte_off(s,j), i < j ==> byte_off(s,i) < byte_off(s,j), 0 <= byte_off(s, i)
    decreases j
{
    broadcast use axiom_utf8_len;
    if i < j { lemma_byte_off_mono(s, i, j-1); } else { if j > 0 { lemma_byte_off_mono(s, 0, j - 1); lemma_byte_off_mono(s, j-1, j-1);} }
}

pub fn position_to_offset(source: &str, position: Position) -> (r: Option<usize>)
    requires source@.len() < u32::MAX, byte_off(source@, source@.len() as int) <= usize::MAX,
    ensures forall|k: int| 0 <= k <= source@.len() && pos_of(source@, k) == (position.line as int, position.character as int)
                ==> r == Some(byte_off(source@, k) as usize),
{
    let mut line = 0u32;
    let mut col = 0u32;
    let mut offset = 0usize;

    let mut it = source.char_indices();
    loop
        invariant
            ci_seq(&it) == source@, 0 <= ci_pos(&it) <= source@.len(),
            source@.len() < u32::MAX, byte_off(source@, source@.len() as int) <= usize::MAX,
            pos_of(source@, ci_pos(&it)) == (line as int, col as int),
            offset as int == byte_off(source@, ci_pos(&it)),
            forall|k: int| 0 <= k < ci_pos(&it) ==> pos_of(source@, k) != (position.line as int, position.character as int),
        ensures
            ci_pos(&it) == source@.len(),
            pos_of(source@, ci_pos(&it)) == (line as int, col as int),
            offset as int == byte_off(source@, ci_pos(&it)),
            forall|k: int| 0 <= k < ci_pos(&it) ==> pos_of(source@, k) != (position.line as int, position.character as int),
        decreases source@.len() - ci_pos(&it)
    {
        let ghost k0 = ci_pos(&it);
        proof { lemma_pos_of_bounds(source@, k0); if k0 < source@.len() { lemma_byte_off_mono(source@, k0 + 1, source@.len() as int); } }
        match it.next() {
            Some((i, c)) => {
        if line == position.line && col == position.character {
            proof {
                assert forall|k: int| 0 <= k <= source@.len() && pos_of(source@, k) == (position.line as int, position.character as int) implies k == k0 by {
                    if k > k0 { lemma_pos_of_strict_mono(source@, k0, k); }
                }
            }
            return Some(i);
        }
        if c == '\n' {
            if line == position.line {
                // Position is beyond line end - return end of line
                proof {
                    assert forall|k: int| 0 <= k <= source@.len() && pos_of(source@, k) == (position.line as int, position.character as int) implies false by {
                        if k > k0 { lemma_pos_of_strict_mono(source@, k0, k); if k > k0 + 1 { lemma_pos_of_strict_mono(source@, k0 + 1, k); } }
                    }
                }
                return Some(i);
            }
            line += 1;
            col = 0;
        } else {
            col += 1;
        }
        offset = i + c.len_utf8();
            }
            None => break,
        }
    }

    // Position at end of file
    if line == position.line && col == position.character {
        Some(offset)
    } else {
        None
    }
}
}
fn main() {}
