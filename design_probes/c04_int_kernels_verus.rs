use vstd::prelude::*;
use vstd::arithmetic::div_mod::*;
verus! {

/// Python semantics, taken from the property statement: q = floor(a/b), r has sign of b, a == q*b + r.
pub open spec fn is_py_divmod(a: int, b: int, q: int, r: int) -> bool {
    &&& a == q * b + r
    &&& (b > 0 ==> 0 <= r < b)
    &&& (b < 0 ==> b < r <= 0)
}

proof fn lemma_py_divmod_unique(a: int, b: int, q1: int, r1: int, q2: int, r2: int)
    requires b != 0, is_py_divmod(a,b,q1,r1), is_py_divmod(a,b,q2,r2)
    ensures q1 == q2, r1 == r2
{
    assert((q1 - q2) * b == r2 - r1) by(nonlinear_arith) requires a == q1*b + r1, a == q2*b + r2;
    if q1 != q2 {
        if b > 0 {
            assert( (q1-q2)*b >= b || (q1-q2)*b <= -b ) by(nonlinear_arith) requires q1 != q2, b > 0;
        } else {
            assert( (q1-q2)*b >= -b || (q1-q2)*b <= b ) by(nonlinear_arith) requires q1 != q2, b < 0;
        }
    }
}

pub assume_specification [i64::wrapping_rem] (a: i64, b: i64) -> (r: i64)
    requires b != 0,
    ensures r as int == rust_rem(a as int, b as int);

proof fn lemma_rust_divrem(a: int, b: int)
    requires b != 0
    ensures a == rust_div(a,b) * b + rust_rem(a,b),
            a >= 0 ==> 0 <= rust_rem(a,b),
            a <= 0 ==> rust_rem(a,b) <= 0,
            b > 0 ==> -b < rust_rem(a,b) < b,
            b < 0 ==> b < rust_rem(a,b) < -b,
            a >= 0 ==> -a <= rust_div(a,b) <= a,
            a <= 0 ==> a <= rust_div(a,b) <= -a,
            (b != 1 && b != -1 && a != 0) ==> (a > 0 ==> -a < rust_div(a,b) < a) && (a < 0 ==> a < rust_div(a,b) < -a),
            b == -1 ==> rust_div(a,b) == -a,
{
    let q = rust_div(a,b); let r = rust_rem(a,b);
    if a > 0 {
        lemma_fundamental_div_mod(a, b);
        if b > 0 { lemma_mod_pos_bound(a, b); } else {
            // a % b for negative b : 0 <= a % b < -b
            lemma_mod_neg_bound(a, b);
        }
    } else if a < 0 {
        lemma_fundamental_div_mod(-a, b);
        if b > 0 { lemma_mod_pos_bound(-a, b); } else { lemma_mod_neg_bound(-a,b); }
        assert(a == (-((-a)/b)) * b + (-((-a) % b))) by(nonlinear_arith) requires -a == b * ((-a)/b) + ((-a)%b);
    }
    assert(a == q * b + r);
    assert(a >= 0 ==> -a <= q <= a) by(nonlinear_arith) requires a == q*b + r, b != 0, a >= 0 ==> 0 <= r, b > 0 ==> -b < r < b, b < 0 ==> b < r < -b;
    assert(a <= 0 ==> a <= q <= -a) by(nonlinear_arith) requires a == q*b + r, b != 0, a <= 0 ==> r <= 0, b > 0 ==> -b < r < b, b < 0 ==> b < r < -b;
    assert((b != 1 && b != -1 && a > 0) ==> -a < q < a) by(nonlinear_arith) requires a == q*b + r, b != 0, a >= 0 ==> 0 <= r, b > 0 ==> -b < r < b, b < 0 ==> b < r < -b;
    assert((b != 1 && b != -1 && a < 0) ==> a < q < -a) by(nonlinear_arith) requires a == q*b + r, b != 0, a <= 0 ==> r <= 0, b > 0 ==> -b < r < b, b < 0 ==> b < r < -b;
    assert(b == -1 ==> q == -a) by(nonlinear_arith) requires a == q*b + r, b < 0 ==> b < r < -b, a >= 0 ==> 0 <= r, a <= 0 ==> r <= 0;
}

proof fn lemma_mod_neg_bound(x: int, m: int)
    requires m < 0
    ensures 0 <= x % m < -m
{
    // SMT-LIB: x mod m in [0, |m|)
}

pub fn py_mod_i64_impl(a: i64, b: i64) -> (res: i64)
    requires b != 0,
    ensures exists|q: int| is_py_divmod(a as int, b as int, q, res as int),
{
    let r = a.wrapping_rem(b);
    proof { lemma_rust_divrem(a as int, b as int); }
    let ghost q0 = rust_div(a as int, b as int);
    if (r > 0 && b < 0) || (r < 0 && b > 0) {
        proof {
            assert(a as int == (q0 - 1) * (b as int) + (r as int + b as int)) by(nonlinear_arith) requires a as int == q0 * (b as int) + r as int;
            assert(is_py_divmod(a as int, b as int, q0 - 1, r as int + b as int));
        }
        r + b
    } else {
        proof { assert(is_py_divmod(a as int, b as int, q0, r as int)); }
        r
    }
}

pub fn py_floor_div_i64_impl(a: i64, b: i64) -> (res: i64)
    requires b != 0, !(a == i64::MIN && b == -1),
    ensures exists|r: int| is_py_divmod(a as int, b as int, res as int, r),
{
    let q = a / b;
    let r = a % b;
    proof { lemma_rust_divrem(a as int, b as int);
        assert(q as int == rust_div(a as int, b as int));
        assert(r as int == rust_rem(a as int, b as int));
    }
    if (r > 0 && b < 0) || (r < 0 && b > 0) {
        proof {
            assert(a as int == (q as int - 1) * (b as int) + (r as int + b as int)) by(nonlinear_arith) requires a as int == (q as int) * (b as int) + r as int;
            assert(is_py_divmod(a as int, b as int, q as int - 1, r as int + b as int));
            // q - 1 does not underflow: |q| <= |a| ...
            assert(q as int - 1 >= i64::MIN as int) by(nonlinear_arith)
                requires a as int == (q as int) * (b as int) + r as int, a >= i64::MIN as int, a <= i64::MAX as int, b != 0,
                   (r > 0 && b < 0) || (r < 0 && b > 0), -9223372036854775808 <= b <= 9223372036854775807, (b > 0 ==> -b < r < b), (b < 0 ==> b < r < -b), !(a == i64::MIN as int && b == -1);
        }
        q - 1
    } else {
        proof { assert(is_py_divmod(a as int, b as int, q as int, r as int)); }
        q
    }
}

}
fn main() {}
