use vstd::prelude::*;
use std::collections::HashMap;
use std::hash::Hash;
verus! {
#[verifier::external_body]
pub fn raise_any() -> ! requires false { panic!() }

pub fn list_get<T>(list: &[T], index: i64) -> (r: &T)
    requires list@.len() <= i64::MAX, -(list@.len() as int) <= index < list@.len(),
    ensures *r == list@[if index < 0 { index + list@.len() } else { index as int }]
{
    let len = list.len();
    let len_i = len as i64;
    let mut i = index;
    if i < 0 {
        i += len_i;
    }
    if i < 0 || i >= len_i {
        raise_any();
    }
    // Safe after bounds check.
    &list[i as usize]
}

pub fn list_get_mut<T>(list: &mut [T], index: i64) -> (r: &mut T)
    requires old(list)@.len() <= i64::MAX, -(old(list)@.len() as int) <= index < old(list)@.len(),
{
    let len = list.len();
    let len_i = len as i64;
    let mut i = index;
    if i < 0 {
        i += len_i;
    }
    if i < 0 || i >= len_i {
        raise_any();
    }
    // Safe after bounds check.
    &mut list[i as usize]
}
}
fn main() {}
