#[cfg(kani)]
mod h {
    use incan_stdlib::num::*;

    fn is_py_divmod(a: i64, b: i64, q: i64, r: i64) -> bool {
        let (a, b, q, r) = (a as i128, b as i128, q as i128, r as i128);
        a == q * b + r && (b <= 0 || (0 <= r && r < b)) && (b >= 0 || (b < r && r <= 0))
    }

    #[kani::proof]
    fn mod_sign() {
        let a: i64 = kani::any();
        let b: i64 = kani::any();
        kani::assume(b != 0);
        let r = py_mod_i64(a, b);
        assert!((b <= 0 || (0 <= r && r < b)) && (b >= 0 || (b < r && r <= 0)));
    }

    #[kani::proof]
    fn divmod_full() {
        let a: i64 = kani::any();
        let b: i64 = kani::any();
        kani::assume(b != 0);
        kani::assume(!(a == i64::MIN && b == -1));
        let r = py_mod_i64(a, b);
        let q = py_floor_div_i64(a, b);
        assert!(is_py_divmod(a, b, q, r));
    }

    #[kani::proof]
    #[kani::should_panic]
    fn mod_zero_panics() {
        let a: i64 = kani::any();
        let _ = py_mod_i64(a, 0);
    }
}
#[cfg(kani)]
mod m {
    fn bad_mod(a: i64, b: i64) -> i64 {
        let r = a.wrapping_rem(b);
        if (r >= 0 && b < 0) || (r < 0 && b > 0) { r + b } else { r }
    }
    #[kani::proof]
    fn bad_mod_sign() {
        let a: i64 = kani::any();
        let b: i64 = kani::any();
        kani::assume(b != 0);
        let r = bad_mod(a, b);
        assert!((b <= 0 || (0 <= r && r < b)) && (b >= 0 || (b < r && r <= 0)));
    }
}
#[cfg(kani)]
mod f {
    use incan_stdlib::num::*;
    #[kani::proof]
    fn fmod_sign() {
        let a: f64 = kani::any();
        let b: f64 = kani::any();
        kani::assume(a.is_finite() && b.is_finite() && b != 0.0);
        let r = py_mod_f64(a, b);
        assert!(r == 0.0 || ((r > 0.0) == (b > 0.0)));
    }
    #[kani::proof]
    fn fdiv_floor() {
        let a: f64 = kani::any();
        let b: f64 = kani::any();
        kani::assume(a.is_finite() && b.is_finite() && b != 0.0);
        let r = py_floor_div_f64(a, b);
        let q = a / b;
        kani::assume(q.is_finite());
        assert!(r <= q && q - r < 1.0);
    }
    #[kani::proof]
    fn div_promote() {
        let a: i64 = kani::any();
        let b: i64 = kani::any();
        kani::assume(b != 0);
        let r = py_div(a, b);
        assert!(r == (a as f64) / (b as f64));
    }
}
#[cfg(kani)]
mod p {
    #[kani::proof]
    fn parity_mod() {
        let a: i64 = kani::any();
        let b: i64 = kani::any();
        kani::assume(b != 0);
        assert!(incan_core::py_mod_i64_impl(a, b) == incan_stdlib::num::py_mod_i64(a, b));
        assert!(incan_stdlib::num::py_mod(a, b) == incan_stdlib::num::py_mod_i64(a, b));
    }
    #[kani::proof]
    fn parity_floor() {
        let a: i64 = kani::any();
        let b: i64 = kani::any();
        kani::assume(b != 0);
        kani::assume(!(a == i64::MIN && b == -1));
        assert!(incan_core::py_floor_div_i64_impl(a, b) == incan_stdlib::num::py_floor_div_i64(a, b));
        assert!(incan_stdlib::num::py_floor_div(a, b) == incan_stdlib::num::py_floor_div_i64(a, b));
    }
    fn ref_floor(a: i64, b: i64) -> i64 {
        let q = a / b;
        if (a % b != 0) && ((a < 0) != (b < 0)) { q - 1 } else { q }
    }
    #[kani::proof]
    fn ref_floor_eq() {
        let a: i64 = kani::any();
        let b: i64 = kani::any();
        kani::assume(b != 0);
        kani::assume(!(a == i64::MIN && b == -1));
        assert!(ref_floor(a, b) == incan_stdlib::num::py_floor_div_i64(a, b));
    }
}

#[cfg(kani)]
mod fx {
    // trusted contract of IEEE fmod (C fmod / Rust `%` on f64), for finite a, finite non-zero b:
    // result is finite, |r| < |b|, r is zero or has the sign of a
    fn __f64_rem(a: f64, b: f64) -> f64 {
        let r: f64 = kani::any();
        kani::assume(r.is_finite());
        kani::assume(r.abs() < b.abs());
        kani::assume(r == 0.0 || ((r < 0.0) == (a < 0.0)));
        r
    }
    // extracted (operator % rewritten)
    fn py_mod_f64_impl(a: f64, b: f64) -> f64 {
        debug_assert!(b != 0.0);
        let r = __f64_rem(a, b);
        if (r > 0.0 && b < 0.0) || (r < 0.0 && b > 0.0) {
            r + b
        } else {
            r
        }
    }
    #[kani::proof]
    fn fmod_contract() {
        let a: f64 = kani::any();
        let b: f64 = kani::any();
        kani::assume(a.is_finite() && b.is_finite() && b != 0.0);
        let r = py_mod_f64_impl(a, b);
        assert!(r.is_finite());
        assert!(r == 0.0 || ((r > 0.0) == (b > 0.0)));     // sign rule
        assert!(r.abs() <= b.abs());                        // weak magnitude
        assert!(r.abs() < b.abs() || r == b);               // strict, modulo the listed rounding class
    }
    #[kani::proof]
    fn fmod_strict_expected_fail() {
        let a: f64 = kani::any();
        let b: f64 = kani::any();
        kani::assume(a.is_finite() && b.is_finite() && b != 0.0);
        let r = py_mod_f64_impl(a, b);
        assert!(r.abs() < b.abs());
    }
}
#[cfg(kani)]
mod st {
    use incan_stdlib::num::*;
    static mut CALLS: u32 = 0;
    static mut ARG_A: i64 = 0;
    static mut ARG_B: i64 = 0;
    static mut RET: i64 = 0;
    fn kernel_stub(a: i64, b: i64) -> i64 {
        unsafe { CALLS += 1; ARG_A = a; ARG_B = b; RET = kani::any(); RET }
    }
    #[kani::proof]
    #[kani::stub(incan_stdlib::num::py_mod_i64_impl, kernel_stub)]
    fn generic_mod_dispatch() {
        let a: i64 = kani::any();
        let b: i64 = kani::any();
        kani::assume(b != 0);
        let r = py_mod(a, b);
        unsafe { assert!(CALLS == 1 && ARG_A == a && ARG_B == b && r == RET); }
    }
    #[kani::proof]
    #[kani::stub(incan_stdlib::num::py_mod_i64_impl, kernel_stub)]
    #[kani::should_panic]
    fn generic_mod_zero() {
        let a: i64 = kani::any();
        let _ = py_mod(a, 0i64);
        // unreachable if panics
    }
    #[kani::proof]
    #[kani::unwind(6)]
    fn list_slice_bounded() {
        let v: [u8; 3] = kani::any();
        let n: usize = kani::any();
        kani::assume(n <= 3);
        let start: Option<i64> = kani::any();
        let end: Option<i64> = kani::any();
        let step: Option<i64> = kani::any();
        kani::assume(step != Some(0));
        let out = incan_stdlib::collections::list_slice(&v[..n], start, end, step);
        // reference python slice with i128
        let len = n as i128;
        let st = step.unwrap_or(1) as i128;
        let adj = |b: Option<i64>, is_start: bool| -> i128 {
            match b {
                None => if st > 0 { if is_start {0} else {len} } else { if is_start {len-1} else {-1} },
                Some(x) => { let x = x as i128; if x < 0 { let w = x + len; if w < 0 { if st < 0 {-1} else {0} } else {w} } else if x >= len { if st < 0 {len-1} else {len} } else {x} }
            }
        };
        let (mut i, j) = (adj(start, true), adj(end, false));
        let mut k = 0usize;
        while (st > 0 && i < j) || (st < 0 && i > j) {
            assert!(k < out.len() && out[k] == v[i as usize]);
            k += 1; i += st;
        }
        assert!(k == out.len());
    }
}
