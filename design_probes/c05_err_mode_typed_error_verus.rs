use vstd::prelude::*;
verus! {
#[derive(Clone, Copy, PartialEq, Eq, Structural)]
pub enum ErrorKind { ValueError, TypeError, ZeroDivisionError, IndexError, KeyError, JsonDecodeError }

pub enum ErrorArgs<'a> {
    Static(&'static str),
    Message(&'a str),
    IndexOutOfRange { index: i64, len: usize, container: &'static str },
    CannotConvertToInt { input: &'a str },
}
pub struct IncanError<'a> { pub kind: ErrorKind, pub args: ErrorArgs<'a> }

impl<'a> IncanError<'a> {
    pub const fn new(kind: ErrorKind, args: ErrorArgs<'a>) -> (r: Self)
        ensures r.kind == kind, r.args == args
    {
        Self { kind, args }
    }
    pub const fn index_out_of_range_for(container: &'static str, index: i64, len: usize) -> (r: Self)
        ensures r.kind == ErrorKind::IndexError, r.args == (ErrorArgs::IndexOutOfRange { index, len, container })
    {
        Self::new(
            ErrorKind::IndexError,
            ErrorArgs::IndexOutOfRange { index, len, container },
        )
    }
    pub const fn zero_division() -> (r: Self)
        ensures r.kind == ErrorKind::ZeroDivisionError, r.args matches ErrorArgs::Static(m) && m@ == "float division by zero"@
    {
        Self::new(
            ErrorKind::ZeroDivisionError,
            ErrorArgs::Static("float division by zero"),
        )
    }
}

pub open spec fn is_list_index_error(e: IncanError, index: i64, len: usize) -> bool {
    e.kind == ErrorKind::IndexError && (e.args matches ErrorArgs::IndexOutOfRange { index: i, len: l, container: c } && i == index && l == len && c@ == "list"@)
}

pub uninterp spec fn expected_index() -> i64;
pub uninterp spec fn expected_len() -> usize;

#[verifier::external_body]
pub fn raise<'a>(err: IncanError<'a>) -> !
    requires is_list_index_error(err, expected_index(), expected_len())
{ panic!() }

pub fn list_get<T>(list: &[T], index: i64) -> (r: &T)
    requires list@.len() <= i64::MAX, !(-(list@.len() as int) <= index < list@.len()), index == expected_index(), list@.len() == expected_len()
    ensures false
{
    let len = list.len();
    let len_i = len as i64;
    let mut i = index;
    if i < 0 {
        i += len_i;
    }
    if i < 0 || i >= len_i {
        raise(IncanError::index_out_of_range_for("list", index, len));
    }
    // Safe after bounds check.
    &list[i as usize]
}
}
fn main() {}
