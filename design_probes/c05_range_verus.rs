use vstd::prelude::*;
verus! {

pub open spec fn range_seq(cur: int, end: int, step: int) -> Seq<int>
    decreases (if step > 0 && cur < end { end - cur } else if step < 0 && cur > end { cur - end } else { 0 })
{
    if step > 0 && cur < end { seq![cur] + range_seq(cur + step, end, step) }
    else if step < 0 && cur > end { seq![cur] + range_seq(cur + step, end, step) }
    else { Seq::empty() }
}

pub proof fn lemma_range_next(cur: int, end: int, step: int)
    requires step != 0
    ensures
        (step > 0 && cur < end) || (step < 0 && cur > end) ==> range_seq(cur, end, step) == seq![cur] + range_seq(cur + step, end, step),
        !((step > 0 && cur < end) || (step < 0 && cur > end)) ==> range_seq(cur, end, step) == Seq::<int>::empty(),
        forall|x: int| (step > 0 && x >= end) || (step < 0 && x <= end) ==> #[trigger] range_seq(x, end, step) == Seq::<int>::empty(),
{
}

pub struct PyRange {
    cur: i64,
    end: i64,
    step: i64,
}

impl PyRange {
    #[verifier::type_invariant]
    spec fn inv(self) -> bool { self.step != 0 }

    pub closed spec fn view(self) -> Seq<int> { range_seq(self.cur as int, self.end as int, self.step as int) }
}

impl PyRange {

    fn next(&mut self) -> (r: Option<i64>)
        ensures
            match r {
                Some(v) => old(self).view() == seq![v as int] + final(self).view(),
                None => old(self).view().len() == 0 && final(self).view().len() == 0,
            }
    {
        proof { use_type_invariant(&*self); lemma_range_next(self.cur as int, self.end as int, self.step as int); }
        if self.step > 0 {
            if self.cur >= self.end {
                return None;
            }
        } else if self.cur <= self.end {
            return None;
        }
        let out = self.cur;
        self.cur = self.cur.saturating_add(self.step);
        Some(out)
    }
}

pub assume_specification [i64::saturating_add] (a: i64, b: i64) -> (r: i64)
    ensures r as int == (if a + b > i64::MAX { i64::MAX as int } else if a + b < i64::MIN { i64::MIN as int } else { a + b });

}
fn main() {}
