use vstd::prelude::*;
use std::collections::HashMap;
use std::hash::Hash;
use core::fmt::Display;
verus! {
pub struct KeyNotFoundInDict<'a, K: Display + ?Sized> { pub key: &'a K }
#[verifier::external_body]
pub fn raise<T>(err: T) -> ! requires false { panic!() }
pub fn key_not_found_in_dict<'a, K: Display + ?Sized>(key: &'a K) -> (r: KeyNotFoundInDict<'a, K>) ensures r.key == key { KeyNotFoundInDict { key } }

pub fn dict_get<'a, K, V>(map: &'a HashMap<K, V>, key: &K) -> (r: &'a V)
where
    K: Eq + Hash + Display,
    requires vstd::std_specs::hash::obeys_key_model::<K>(), map@.contains_key(*key)
    ensures *r == map@[*key]
{
    match map.get(key) {
        Some(v) => v,
        None => raise(key_not_found_in_dict(key)),
    }
}
}
fn main() {}
