use vstd::prelude::*;
verus! {

#[verifier::external_body]
pub fn raise_zero_division() -> !
    // MODE_ERR: may be called; never returns
{ panic!() }

#[verifier::external_body]
fn py_mod_i64_impl(a: i64, b: i64) -> (r: i64)
    requires b != 0
{ unimplemented!() }

pub fn py_mod_i64(a: i64, b: i64) -> (r: i64)
    requires b == 0
    ensures false
{
    if b == 0 {
        raise_zero_division();
    }
    py_mod_i64_impl(a, b)
}

// mutant: zero check dropped for negative a
pub fn py_mod_i64_m(a: i64, b: i64) -> (r: i64)
    requires b == 0
    ensures false
{
    if b == 0 && a >= 0 {
        raise_zero_division();
    }
    py_mod_i64_impl(a, b)
}
}
fn main() {}
