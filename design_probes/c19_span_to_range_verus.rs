use vstd::prelude::*;
use vstd::string::*;
use core::str::CharIndices;
verus! {

// ---------- trusted model of UTF-8 strings and CharIndices ----------
pub open spec fn utf8_len(c: char) -> int { vstd::utf8::encode_scalar(c as u32).len() as int }
pub broadcast axiom fn axiom_utf8_len(c: char)
    ensures 1 <= #[trigger] utf8_len(c) <= 4;

pub open spec fn byte_off(s: Seq<char>, k: int) -> int
    decreases k
{
    if k <= 0 { 0 } else { byte_off(s, k - 1) + utf8_len(s[k - 1]) }
}

#[verifier::external_type_specification]
#[verifier::external_body]
pub struct ExCharIndices<'a>(CharIndices<'a>);

pub uninterp spec fn ci_seq(it: &CharIndices) -> Seq<char>;
pub uninterp spec fn ci_pos(it: &CharIndices) -> int;

pub assume_specification<'a>[str::char_indices](s: &'a str) -> (it: CharIndices<'a>)
    ensures ci_seq(&it) == s@, ci_pos(&it) == 0;

pub assume_specification<'a>[<CharIndices<'a> as Iterator>::next](it: &mut CharIndices<'a>) -> (r: Option<(usize, char)>)
    ensures
        ci_seq(final(it)) == ci_seq(old(it)),
        ci_pos(old(it)) < ci_seq(old(it)).len() ==> {
            &&& r == Some((byte_off(ci_seq(old(it)), ci_pos(old(it))) as usize, ci_seq(old(it))[ci_pos(old(it))]))
            &&& ci_pos(final(it)) == ci_pos(old(it)) + 1
        },
        ci_pos(old(it)) >= ci_seq(old(it)).len() ==> r.is_none() && ci_pos(final(it)) == ci_pos(old(it));


#[derive(PartialEq, Eq)]
pub struct Position { pub line: u32, pub character: u32 }
impl Position { pub fn new(line: u32, character: u32) -> (r: Position) ensures r.line == line, r.character == character { Position { line, character } } }

/// (line, col) of the k-th character boundary: count newlines / characters since last newline in s[0..k]
pub open spec fn pos_of(s: Seq<char>, k: int) -> (int, int)
    decreases k
{
    if k <= 0 { (0, 0) } else {
        let p = pos_of(s, k - 1);
        if s[k - 1] == '\n' { (p.0 + 1, 0) } else { (p.0, p.1 + 1) }
    }
}
pub open spec fn lex_lt(a: (int,int), b: (int,int)) -> bool { a.0 < b.0 || (a.0 == b.0 && a.1 < b.1) }

pub proof fn lemma_pos_of_bounds(s: Seq<char>, k: int)
    requires 0 <= k <= s.len()
    ensures 0 <= pos_of(s,k).0 <= k, 0 <= pos_of(s,k).1 <= k, pos_of(s,k).0 + pos_of(s,k).1 <= k
    decreases k
{ if k > 0 { lemma_pos_of_bounds(s, k-1); } }

pub proof fn lemma_pos_of_strict_mono(s: Seq<char>, i: int, j: int)
    requires 0 <= i < j <= s.len()
    ensures lex_lt(pos_of(s,i), pos_of(s,j))
    decreases j - i
{
    lemma_pos_of_bounds(s, j-1);
    if i < j - 1 { lemma_pos_of_strict_mono(s, i, j-1); }
}

pub proof fn lemma_byte_off_mono(s: Seq<char>, i: int, j: int)
    requires 0 <= i <= j <= s.len()
    ensures byte_off(s,i) <= byte_off(s,j), i < j ==> byte_off(s,i) < byte_off(s,j), 0 <= byte_off(s, i)
    decreases j
{
    broadcast use axiom_utf8_len;
    if i < j { lemma_byte_off_mono(s, i, j-1); } else { if j > 0 { lemma_byte_off_mono(s, 0, j - 1); lemma_byte_off_mono(s, j-1, j-1);} }
}


/// least character index whose byte offset is >= o (o already clamped to len)
pub open spec fn first_boundary_at_or_after(s: Seq<char>, o: int, k: int) -> bool {
    0 <= k <= s.len() && byte_off(s, k) >= o && (forall|j: int| 0 <= j < k ==> byte_off(s, j) < o)
}


pub proof fn lemma_len_is_byte_off(source: &str)
    ensures source.spec_bytes().len() == byte_off(source@, source@.len() as int)
{ admit(); }   // PROBE ONLY: to be replaced by vstd::utf8 lemmas or listed as trusted axiom

pub fn offset_to_position(source: &str, offset: usize) -> (r: Position)
    requires source@.len() < u32::MAX, byte_off(source@, source@.len() as int) <= usize::MAX,
    ensures exists|k: int| first_boundary_at_or_after(source@, (if offset as int <= byte_off(source@, source@.len() as int) { offset as int } else { byte_off(source@, source@.len() as int) }), k)
              && (r.line as int, r.character as int) == pos_of(source@, k),
{
    proof { lemma_len_is_byte_off(source); }
    let offset = offset.min(source.len());
    let mut line = 0u32;
    let mut col = 0u32;

    let mut it = source.char_indices();
    loop
        invariant_except_break
            pos_of(source@, ci_pos(&it)) == (line as int, col as int),
            forall|j: int| 0 <= j < ci_pos(&it) ==> byte_off(source@, j) < offset,
        invariant
            ci_seq(&it) == source@, 0 <= ci_pos(&it) <= source@.len(), source@.len() < u32::MAX,
            offset as int <= byte_off(source@, source@.len() as int), byte_off(source@, source@.len() as int) <= usize::MAX,
        ensures
            exists|k: int| first_boundary_at_or_after(source@, offset as int, k) && pos_of(source@, k) == (line as int, col as int),
        decreases source@.len() - ci_pos(&it)
    {
        let ghost k0 = ci_pos(&it);
        proof { lemma_pos_of_bounds(source@, k0); lemma_byte_off_mono(source@, k0, source@.len() as int); if k0 < source@.len() { lemma_pos_of_bounds(source@, k0 + 1); lemma_byte_off_mono(source@, k0 + 1, source@.len() as int); }
            assert(byte_off(source@, k0) >= offset ==> first_boundary_at_or_after(source@, offset as int, k0));
            assert(k0 == source@.len() ==> first_boundary_at_or_after(source@, offset as int, k0));
        }
        match it.next() {
            Some((i, c)) => {
        if i >= offset {
            break;
        }
        if c == '\n' {
            line += 1;
            col = 0;
        } else {
            col += 1;
        }
            }
            None => break,
        }
    }

    Position::new(line, col)
}

pub struct Range { pub start: Position, pub end: Position }
impl Range { pub fn new(start: Position, end: Position) -> (r: Range) ensures r.start == start, r.end == end { Range { start, end } } }

pub open spec fn clampo(s: Seq<char>, o: int) -> int { if o <= byte_off(s, s.len() as int) { o } else { byte_off(s, s.len() as int) } }
pub open spec fn lex_le(a: (int,int), b: (int,int)) -> bool { a == b || lex_lt(a, b) }
pub open spec fn ppos(p: Position) -> (int,int) { (p.line as int, p.character as int) }

pub proof fn lemma_first_boundary_mono(s: Seq<char>, o1: int, o2: int, k1: int, k2: int)
    requires o1 <= o2, first_boundary_at_or_after(s, o1, k1), first_boundary_at_or_after(s, o2, k2)
    ensures k1 <= k2
{
    if k2 < k1 { assert(byte_off(s, k2) < o1); }
}
pub proof fn lemma_pos_of_mono(s: Seq<char>, i: int, j: int)
    requires 0 <= i <= j <= s.len()
    ensures lex_le(pos_of(s,i), pos_of(s,j))
{ if i < j { lemma_pos_of_strict_mono(s, i, j); } }

pub fn span_to_range(source: &str, start: usize, end: usize) -> (r: Range)
    requires source@.len() < u32::MAX, byte_off(source@, source@.len() as int) <= usize::MAX, start < usize::MAX,
    ensures lex_le(ppos(r.start), ppos(r.end)), lex_le(ppos(r.end), pos_of(source@, source@.len() as int)),
{
    let start_pos = offset_to_position(source, start);
    let end_pos = offset_to_position(source, end.max(start + 1));
    proof {
        let o1 = clampo(source@, start as int);
        let o2 = clampo(source@, (if end >= start + 1 { end } else { (start + 1) as usize }) as int);
        let k1 = choose|k: int| first_boundary_at_or_after(source@, o1, k) && ppos(start_pos) == pos_of(source@, k);
        let k2 = choose|k: int| first_boundary_at_or_after(source@, o2, k) && ppos(end_pos) == pos_of(source@, k);
        lemma_first_boundary_mono(source@, o1, o2, k1, k2);
        lemma_pos_of_mono(source@, k1, k2);
        lemma_pos_of_mono(source@, k2, source@.len() as int);
    }
    Range::new(start_pos, end_pos)
}
}
fn main() {}
