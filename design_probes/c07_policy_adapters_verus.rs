use vstd::prelude::*;
verus! {

pub open spec fn is_arith(op: NumericOp) -> bool { op == NumericOp::Add || op == NumericOp::Sub || op == NumericOp::Mul || op == NumericOp::Div || op == NumericOp::FloorDiv || op == NumericOp::Mod || op == NumericOp::Pow }
/// the table of the numeric-semantics reference / property C07
pub open spec fn numeric_table(op: NumericOp, l: NumericTy, r: NumericTy, k: Option<PowExponentKind>) -> NumericTy {
    if op == NumericOp::Div { NumericTy::Float }
    else if op == NumericOp::Pow {
        if l == NumericTy::Int && r == NumericTy::Int && k == Some(PowExponentKind::NonNegativeIntLiteral) { NumericTy::Int } else { NumericTy::Float }
    } else { if l == NumericTy::Float || r == NumericTy::Float { NumericTy::Float } else { NumericTy::Int } }
}
pub open spec fn ir_of(t: NumericTy) -> IrType { if t == NumericTy::Int { IrType::Int } else { IrType::Float } }
pub open spec fn ast_num(op: ast::BinaryOp) -> Option<NumericOp> {
    match op {
        ast::BinaryOp::Add => Some(NumericOp::Add), ast::BinaryOp::Sub => Some(NumericOp::Sub), ast::BinaryOp::Mul => Some(NumericOp::Mul),
        ast::BinaryOp::Div => Some(NumericOp::Div), ast::BinaryOp::FloorDiv => Some(NumericOp::FloorDiv), ast::BinaryOp::Mod => Some(NumericOp::Mod),
        ast::BinaryOp::Pow => Some(NumericOp::Pow), ast::BinaryOp::Eq => Some(NumericOp::Eq), ast::BinaryOp::NotEq => Some(NumericOp::NotEq),
        ast::BinaryOp::Lt => Some(NumericOp::Lt), ast::BinaryOp::Gt => Some(NumericOp::Gt), ast::BinaryOp::LtEq => Some(NumericOp::LtEq), ast::BinaryOp::GtEq => Some(NumericOp::GtEq),
        _ => None,
    }
}
#[derive(Clone, Copy, PartialEq, Eq, Structural)]
pub enum NumericTy {
    Int,
    Float,
}
#[derive(Clone, Copy, PartialEq, Eq, Structural)]
pub enum NumericOp {
    Add,
    Sub,
    Mul,
    Div,
    FloorDiv,
    Mod,
    Pow,
    // Comparisons (for coercion, not result type)
    Eq,
    NotEq,
    Lt,
    LtEq,
    Gt,
    GtEq,
}
#[derive(Clone, Copy, PartialEq, Eq, Structural)]
pub enum PowExponentKind {
    NonNegativeIntLiteral,
    NegativeIntLiteral,
    Variable,
    Float,
}
impl PowExponentKind {
    pub fn from_literal_info(rhs_is_float: bool, rhs_int_literal: Option<i64>) -> (r: Self)
    ensures r == (if rhs_is_float { PowExponentKind::Float } else { match rhs_int_literal { Some(v) => if v >= 0 { PowExponentKind::NonNegativeIntLiteral } else { PowExponentKind::NegativeIntLiteral }, None => PowExponentKind::Variable } })
{
        if rhs_is_float {
            PowExponentKind::Float
        } else if let Some(val) = rhs_int_literal {
            if val >= 0 {
                PowExponentKind::NonNegativeIntLiteral
            } else {
                PowExponentKind::NegativeIntLiteral
            }
        } else {
            PowExponentKind::Variable
        }
    }
}
pub fn result_numeric_type(
    op: NumericOp,
    lhs: NumericTy,
    rhs: NumericTy,
    pow_exp_kind: Option<PowExponentKind>,
) -> (r: NumericTy)
    ensures r == numeric_table(op, lhs, rhs, pow_exp_kind)
{
    match op {
        NumericOp::Div => NumericTy::Float,

        // FloorDiv: returns int when both are int, float when either is float
        NumericOp::FloorDiv | NumericOp::Mod | NumericOp::Add | NumericOp::Sub | NumericOp::Mul => {
            if lhs == NumericTy::Float || rhs == NumericTy::Float {
                NumericTy::Float
            } else {
                NumericTy::Int
            }
        }

        NumericOp::Pow => {
            // Int result only when: both operands Int AND exponent is non-negative int literal
            if lhs == NumericTy::Int && rhs == NumericTy::Int {
                match pow_exp_kind {
                    Some(PowExponentKind::NonNegativeIntLiteral) => NumericTy::Int,
                    _ => NumericTy::Float,
                }
            } else {
                NumericTy::Float
            }
        }

        // Comparisons don't produce numeric results, but this function is about operand types
        // so we return Float if either side is Float (for coercion purposes).
        NumericOp::Eq | NumericOp::NotEq | NumericOp::Lt | NumericOp::LtEq | NumericOp::Gt | NumericOp::GtEq => {
            if lhs == NumericTy::Float || rhs == NumericTy::Float {
                NumericTy::Float
            } else {
                NumericTy::Int
            }
        }
    }
}
pub fn needs_float_promotion(
    op: NumericOp,
    lhs: NumericTy,
    rhs: NumericTy,
    pow_exp_kind: Option<PowExponentKind>,
) -> (r: (bool, bool))
    ensures r == ((numeric_table(op, lhs, rhs, pow_exp_kind) == NumericTy::Float && lhs == NumericTy::Int), (numeric_table(op, lhs, rhs, pow_exp_kind) == NumericTy::Float && rhs == NumericTy::Int))
{
    let result_ty = result_numeric_type(op, lhs, rhs, pow_exp_kind);

    if result_ty == NumericTy::Float {
        (lhs == NumericTy::Int, rhs == NumericTy::Int)
    } else {
        (false, false)
    }
}
pub fn is_numeric_arithmetic_op(op: NumericOp) -> bool {
    matches!(
        op,
        NumericOp::Add
            | NumericOp::Sub
            | NumericOp::Mul
            | NumericOp::Div
            | NumericOp::FloorDiv
            | NumericOp::Mod
            | NumericOp::Pow
    )
}
pub fn is_numeric_comparison_op(op: NumericOp) -> bool {
    matches!(
        op,
        NumericOp::Eq | NumericOp::NotEq | NumericOp::Lt | NumericOp::LtEq | NumericOp::Gt | NumericOp::GtEq
    )
}
#[derive(Clone, Copy, PartialEq, Eq, Structural)]
pub enum BinaryOp {
    Add,
    Sub,
    Mul,
    Div,
    FloorDiv, // // (Python-style floor division)
    Mod,
    Pow,
    Eq,
    NotEq,
    Lt,
    Gt,
    LtEq,
    GtEq,
    And,
    Or,
    In,
    NotIn,
    Is,
}
pub mod ast { pub use super::BinaryOp; }
#[derive(Clone, Copy, PartialEq, Eq, Structural)]
pub enum IrBinOp {
    // Arithmetic
    Add,
    Sub,
    Mul,
    Div,
    FloorDiv, // // (Python-style floor division)
    Mod,
    Pow,

    // Comparison
    Eq,
    Ne,
    Lt,
    Le,
    Gt,
    Ge,

    // Logical
    And,
    Or,

    // Bitwise
    BitAnd,
    BitOr,
    BitXor,
    Shl,
    Shr,
}
pub type BinOp = IrBinOp;
pub enum ResolvedType {
    Int,
    Float,
    Bool,
    Str,
    Bytes,
    FrozenStr,
    FrozenBytes,
    FrozenList(Box<ResolvedType>),
    FrozenDict(Box<ResolvedType>, Box<ResolvedType>),
    FrozenSet(Box<ResolvedType>),
    Unit,
    Named(String),
    Generic(String, Vec<ResolvedType>),
    Function(Vec<ResolvedType>, Box<ResolvedType>),
    Tuple(Vec<ResolvedType>),
    TypeVar(String),
    SelfType,
    Ref(Box<ResolvedType>),
    Unknown,
}
pub enum IrType {
    // Primitives
    Unit,
    Bool,
    Int,
    Float,
    String,
    StaticStr,
    StaticBytes,
    FrozenStr,
    FrozenBytes,
    StrRef,

    // Collections
    List(Box<IrType>),
    Dict(Box<IrType>, Box<IrType>),
    Set(Box<IrType>),
    Tuple(Vec<IrType>),

    // Option and Result
    Option(Box<IrType>),
    Result(Box<IrType>, Box<IrType>),

    // User-defined types
    Struct(String),
    Enum(String),
    Trait(String),
    NamedGeneric(String, Vec<IrType>),

    // Function type
    Function {
        params: Vec<IrType>,
        ret: Box<IrType>,
    },

    // Generic type parameter (for generic functions)
    Generic(String),

    // Self type (in trait/impl contexts)
    SelfType,

    // Reference types (explicit borrows)
    Ref(Box<IrType>),
    RefMut(Box<IrType>),

    // Unknown (for error recovery)
    Unknown,
}
pub fn numeric_op_from_ast(op: &BinaryOp) -> (r: Option<NumericOp>)
    ensures r == ast_num(*op)
{
    match op {
        BinaryOp::Add => Some(NumericOp::Add),
        BinaryOp::Sub => Some(NumericOp::Sub),
        BinaryOp::Mul => Some(NumericOp::Mul),
        BinaryOp::Div => Some(NumericOp::Div),
        BinaryOp::FloorDiv => Some(NumericOp::FloorDiv),
        BinaryOp::Mod => Some(NumericOp::Mod),
        BinaryOp::Pow => Some(NumericOp::Pow),
        BinaryOp::Eq => Some(NumericOp::Eq),
        BinaryOp::NotEq => Some(NumericOp::NotEq),
        BinaryOp::Lt => Some(NumericOp::Lt),
        BinaryOp::Gt => Some(NumericOp::Gt),
        BinaryOp::LtEq => Some(NumericOp::LtEq),
        BinaryOp::GtEq => Some(NumericOp::GtEq),
        _ => None,
    }
}
pub fn numeric_ty_from_resolved(ty: &ResolvedType) -> Option<NumericTy> {
    match ty {
        ResolvedType::Int => Some(NumericTy::Int),
        ResolvedType::Float => Some(NumericTy::Float),
        _ => None,
    }
}
pub fn numeric_op_from_ir(op: &IrBinOp) -> Option<NumericOp> {
    match op {
        IrBinOp::Add => Some(NumericOp::Add),
        IrBinOp::Sub => Some(NumericOp::Sub),
        IrBinOp::Mul => Some(NumericOp::Mul),
        IrBinOp::Div => Some(NumericOp::Div),
        IrBinOp::FloorDiv => Some(NumericOp::FloorDiv),
        IrBinOp::Mod => Some(NumericOp::Mod),
        IrBinOp::Pow => Some(NumericOp::Pow),
        IrBinOp::Eq => Some(NumericOp::Eq),
        IrBinOp::Ne => Some(NumericOp::NotEq),
        IrBinOp::Lt => Some(NumericOp::Lt),
        IrBinOp::Gt => Some(NumericOp::Gt),
        IrBinOp::Le => Some(NumericOp::LtEq),
        IrBinOp::Ge => Some(NumericOp::GtEq),
        _ => None,
    }
}
pub fn ir_type_to_numeric_ty(ty: &IrType) -> (r: Option<NumericTy>)
    ensures r == (match *ty { IrType::Int => Some(NumericTy::Int), IrType::Float => Some(NumericTy::Float), _ => None })
{
    match ty {
        IrType::Int => Some(NumericTy::Int),
        IrType::Float => Some(NumericTy::Float),
        _ => None,
    }
}
impl Clone for IrType {
    #[verifier::external_body]
    fn clone(&self) -> (r: Self) ensures r == *self { unimplemented!() }
}
pub struct AstLowering {}
impl AstLowering {
    pub fn lower_binop(&self, op: &ast::BinaryOp) -> BinOp {
        match op {
            ast::BinaryOp::Add => BinOp::Add,
            ast::BinaryOp::Sub => BinOp::Sub,
            ast::BinaryOp::Mul => BinOp::Mul,
            ast::BinaryOp::Div => BinOp::Div,
            ast::BinaryOp::FloorDiv => BinOp::FloorDiv,
            ast::BinaryOp::Mod => BinOp::Mod,
            ast::BinaryOp::Pow => BinOp::Pow,
            ast::BinaryOp::Eq => BinOp::Eq,
            ast::BinaryOp::NotEq => BinOp::Ne,
            ast::BinaryOp::Lt => BinOp::Lt,
            ast::BinaryOp::LtEq => BinOp::Le,
            ast::BinaryOp::Gt => BinOp::Gt,
            ast::BinaryOp::GtEq => BinOp::Ge,
            ast::BinaryOp::And => BinOp::And,
            ast::BinaryOp::Or => BinOp::Or,
            ast::BinaryOp::In | ast::BinaryOp::NotIn | ast::BinaryOp::Is => BinOp::Eq,
        }
    }
    pub fn binary_result_type(
        &self,
        left: &IrType,
        right: &IrType,
        op: &ast::BinaryOp,
        pow_exp_kind: Option<PowExponentKind>,
    ) -> (r: IrType)
    ensures
            ast_num(*op).is_none() ==> r == IrType::Bool,
            (ast_num(*op).is_some() && !is_arith(ast_num(*op).unwrap())) ==> r == IrType::Bool,
            (ast_num(*op).is_some() && is_arith(ast_num(*op).unwrap()) && (*left == IrType::Int || *left == IrType::Float) && (*right == IrType::Int || *right == IrType::Float)) ==>
                r == ir_of(numeric_table(ast_num(*op).unwrap(), if *left == IrType::Int { NumericTy::Int } else { NumericTy::Float }, if *right == IrType::Int { NumericTy::Int } else { NumericTy::Float }, pow_exp_kind)),
{
        match op {
            ast::BinaryOp::Eq
            | ast::BinaryOp::NotEq
            | ast::BinaryOp::Lt
            | ast::BinaryOp::LtEq
            | ast::BinaryOp::Gt
            | ast::BinaryOp::GtEq
            | ast::BinaryOp::And
            | ast::BinaryOp::Or
            | ast::BinaryOp::In
            | ast::BinaryOp::NotIn
            | ast::BinaryOp::Is => IrType::Bool,
            ast::BinaryOp::Add
            | ast::BinaryOp::Sub
            | ast::BinaryOp::Mul
            | ast::BinaryOp::Div
            | ast::BinaryOp::FloorDiv
            | ast::BinaryOp::Mod
            | ast::BinaryOp::Pow => {
                // Convert to NumericTy
                let lhs_num = ir_type_to_numeric_ty(left);
                let rhs_num = ir_type_to_numeric_ty(right);

                match (lhs_num, rhs_num) {
                    (Some(lhs), Some(rhs)) => {
                        if let Some(num_op) = numeric_op_from_ast(op) {
                            let result = result_numeric_type(num_op, lhs, rhs, pow_exp_kind);
                            match result {
                                NumericTy::Int => IrType::Int,
                                NumericTy::Float => IrType::Float,
                            }
                        } else {
                            IrType::Unknown
                        }
                    }
                    _ => left.clone(),
                }
            }
        }
    }
}
}
fn main() {}
