"""diffrun — a bounded stand-in THROUGH THE WHOLE PIPELINE: seeded Incan programs are compiled by the real front end and
code generator, built by cargo/rustc and executed (what `incan run` does, via the native driver's `runfile` mode); every
printed value is compared with the value the documented (Python) semantics give for the same expression, computed here
with Python itself. rustc's own type checker judges the numeric kind of every expression (each test function declares the
table's kind as its return type). It is a seeded SAMPLE of program shapes (not exhaustive, not a proof): it exists for the
glue between the phases — which operand reaches which helper, with which type, in which statement context.

Shapes are restricted to what the documented language defines and the unchanged tree compiles: groupings that need
parentheses around `+ - *` sub-expressions are not generated (the code generator drops such parentheses: a defect of
property C01, which this framework does not claim)."""
from __future__ import annotations
import json, math, os, random, shutil, subprocess, sys

PRELUDE = '''model Item:
    qty: int
    price: float
    tags: List[int]
    name: str

def half(v: int) -> int:
    return v

def halff(v: float) -> float:
    return v

def mk() -> List[int]:
    return [4, 8, 15, 16, 23, 42]

def word() -> str:
    return "wörld😀x"

'''


class Item:
    def __init__(self):
        self.qty, self.price, self.tags, self.name = 3, 2.5, [7, 1, 9, 4], "héllo"


def py_env():
    return {'it': Item(), 'half': lambda v: v, 'halff': lambda v: v, 'mk': lambda: [4, 8, 15, 16, 23, 42], 'word': lambda: "wörld😀x",
            'xs': [1, 2, 3, 5, 8], 'fs': [0.5, 1.5, 2.25], 's': "héllo wörld", 'grid': [[1, 2, 3], [4, 5, 6]],
            'd': {"a": 1.5, "b": 2.0}, 'floor': math.floor, 'fdiv': fdiv, 'fmod': fmod, 'tdiv': tdiv}


# ---- the documented semantics of / // % (numeric-semantics reference), not "whatever CPython prints"
def tdiv(a, b):
    return float(a) / float(b)


def fdiv(a, b):
    if isinstance(a, int) and isinstance(b, int):
        return a // b
    return float(math.floor(float(a) / float(b)))


def fmod(a, b):
    if isinstance(a, int) and isinstance(b, int):
        return a % b
    return math.fmod(float(a), float(b)) + (float(b) if (math.fmod(float(a), float(b)) != 0 and (math.fmod(float(a), float(b)) < 0) != (float(b) < 0)) else 0.0)


INT_ATOMS = [('a', 'a'), ('b', 'b'), ('it.qty', 'it.qty'), ('half(a)', 'half(a)'), ('3', '3'), ('(-3)', '(-3)'), ('len(xs)', 'len(xs)'),
             ('xs[1]', 'xs[1]'), ('(b)', '(b)'), ('(it.qty)', '(it.qty)'), ('it.tags[2]', 'it.tags[2]'), ('mk()[3]', 'mk()[3]')]
FLOAT_ATOMS = [('x', 'x'), ('y', 'y'), ('it.price', 'it.price'), ('halff(x)', 'halff(x)'), ('2.5', '2.5'), ('(-0.5)', '(-0.5)'),
               ('fs[1]', 'fs[1]'), ('(y)', '(y)'), ('(it.price)', '(it.price)')]
PARAMS = 'a: int, b: int, x: float, y: float, it: Item, xs: List[int], fs: List[float], s: str, grid: List[List[int]]'
ARGSETS = [dict(a=7, b=-2, x=1.5, y=-0.75), dict(a=-9, b=4, x=-2.25, y=0.5), dict(a=12, b=5, x=0.125, y=3.0)]


def atom(r, kind=None):
    kind = kind or r.choice(['int', 'float'])
    inc, py = r.choice(INT_ATOMS if kind == 'int' else FLOAT_ATOMS)
    return inc, py, kind


def divop(r, l, rr):
    """(incan text, python text, kind) for `l OP rr` with OP in / // %"""
    op = r.choice(['/', '//', '%'])
    fn = {'/': 'tdiv', '//': 'fdiv', '%': 'fmod'}[op]
    kind = 'float' if op == '/' or 'float' in (l[2], rr[2]) else 'int'
    return f'{l[0]} {op} {rr[0]}', f'{fn}({l[1]}, {rr[1]})', kind


def paren(e):
    return f'({e[0]})', f'({e[1]})', e[2]


def gen_c04(r, k):
    """one test function for the division family; returns (incan function text, python expression for the result, kind)"""
    forms = ['plain', 'nested_l', 'nested_r', 'arith', 'int_of', 'let', 'compound', 'lambda', 'field_compound', 'elem_compound', 'stmt', 'comp_shadow']
    form = forms[k % len(forms)]          # every shape occurs in every program (the operands are random)
    l, rr, z = atom(r), atom(r), atom(r)
    body = None
    if form == 'plain':
        e = divop(r, l, rr)
    elif form == 'nested_l':
        e = divop(r, paren(divop(r, l, rr)), z)
    elif form == 'nested_r':
        e = divop(r, l, paren(divop(r, rr, z)))
    elif form == 'arith':
        inner = paren(divop(r, l, rr))
        ao = r.choice(['+', '-', '*'])
        first = r.random() < 0.5
        kind = 'float' if 'float' in (inner[2], z[2]) else 'int'
        e = (f'{inner[0]} {ao} {z[0]}', f'{inner[1]} {ao} {z[1]}', kind) if first else (f'{z[0]} {ao} {inner[0]}', f'{z[1]} {ao} {inner[1]}', kind)
    elif form == 'int_of':
        inner = divop(r, l, rr)
        e = (f'int({inner[0]})', f'int({inner[1]})', 'int')
    elif form == 'let':
        e = divop(r, l, rr)
        body = f'    q = {e[0]}\n    return q\n'
    elif form == 'stmt':
        # a bare expression statement must be evaluated (and here must not fail); the function then returns another division
        e0, e = divop(r, l, rr), divop(r, z, l)
        body = f'    {e0[0]}\n    return {e[0]}\n'
        e = (e[0], f'({e0[1]}, {e[1]})[1]', e[2])
    elif form == 'compound':
        op = r.choice(['/', '//', '%'])
        tk = 'float' if op == '/' else r.choice(['int', 'float'])
        t0, v = atom(r, tk), atom(r, 'int' if tk == 'int' else None)
        fn = {'/': 'tdiv', '//': 'fdiv', '%': 'fmod'}[op]
        e = ('acc', f'{fn}({t0[1]}, {v[1]})', tk)
        body = f'    mut acc: {tk} = {t0[0]}\n    acc {op}= {v[0]}\n    return acc\n'
    elif form == 'field_compound':
        op = r.choice(['/', '//', '%'])
        v = atom(r)
        fn = {'/': 'tdiv', '//': 'fdiv', '%': 'fmod'}[op]
        e = ('it2.price', f'{fn}(it.price, {v[1]})', 'float')
        body = f'    mut it2: Item = Item(qty=3, price=2.5, tags=[7, 1, 9, 4], name="héllo")\n    it2.price {op}= {v[0]}\n    return it2.price\n'
    elif form == 'elem_compound':
        op = r.choice(['/', '//', '%'])
        v = atom(r)
        fn = {'/': 'tdiv', '//': 'fdiv', '%': 'fmod'}[op]
        e = ('ys[1]', f'{fn}(fs[1], {v[1]})', 'float')
        body = f'    mut ys: List[float] = [0.5, 1.5, 2.25]\n    ys[1] {op}= {v[0]}\n    return ys[1]\n'
    elif form == 'comp_shadow':
        # a comprehension variable that shadows an outer variable of the OTHER numeric kind
        op = r.choice(['//', '%'])
        fn = {'//': 'fdiv', '%': 'fmod'}[op]
        if r.random() < 0.5:
            e = ('ys', f'sum({fn}(v, 2) for v in xs)', 'int')
            body = f'    v: float = 2.5\n    ys = [v {op} 2 for v in xs]\n    mut acc: int = 0\n    for w in ys:\n        acc += w\n    return acc\n'
        else:
            e = ('ys', f'sum({fn}(v, 2) for v in fs)', 'float')
            body = f'    v: int = 7\n    ys = [v {op} 2 for v in fs]\n    mut acc: float = 0.0\n    for w in ys:\n        acc += w\n    return acc\n'
    else:  # lambda with an untyped parameter: the generic helper dispatches on the run-time type
        op = r.choice(['//', '%'])
        fn = {'//': 'fdiv', '%': 'fmod'}[op]
        v = atom(r, 'int')
        arg = atom(r, 'int')      # (with a float argument the CHECKER types `u % 2` as int: outside the claimed properties)
        kind = 'int'
        e = ('g', f'{fn}({arg[1]}, {v[1]})', kind)
        body = f'    g = (u) => u {op} {v[0]}\n    return g({arg[0]})\n'
    if body is None:
        body = f'    return {e[0]}\n'
    ret = e[2]
    return f'def t{k}({PARAMS}) -> {ret}:\n{body}\n', e[1], ret


def table_kind(op, lk, rk, exp_lit=None):
    if op == '/':
        return 'float'
    if op == '**':
        if lk == 'int' and rk == 'int' and exp_lit is not None and exp_lit >= 0:
            return 'int'
        return 'float'
    return 'float' if 'float' in (lk, rk) else 'int'


def gen_c07(r, k):
    forms = ['flat', 'prec', 'pow', 'let_ann', 'compound', 'field_compound', 'zip', 'enumerate', 'cmp', 'comp_shadow']
    form = forms[k % len(forms)]          # every shape occurs in every program (the operands are random)
    l, rr, z = atom(r), atom(r), atom(r)
    body = None
    if form == 'flat':
        op = r.choice(['+', '-', '*'])
        e = (f'{l[0]} {op} {rr[0]}', f'{l[1]} {op} {rr[1]}', table_kind(op, l[2], rr[2]))
    elif form == 'prec':       # natural precedence only: `l + r * z`, `l * r - z`
        if r.random() < 0.5:
            kk = table_kind('+', l[2], table_kind('*', rr[2], z[2]))
            e = (f'{l[0]} + {rr[0]} * {z[0]}', f'{l[1]} + {rr[1]} * {z[1]}', kk)
        else:
            kk = table_kind('-', table_kind('*', l[2], rr[2]), z[2])
            e = (f'{l[0]} * {rr[0]} - {z[0]}', f'{l[1]} * {rr[1]} - {z[1]}', kk)
    elif form == 'pow':
        base = r.choice([('b', 'b', 'int'), ('it.qty', 'it.qty', 'int'), ('2.5', '2.5', 'float'), ('halff(2.0)', 'halff(2.0)', 'float')])
        # (`int ** negative literal` does not get through the code generator at all on the unchanged tree: not generated)
        lit = r.choice([0, 2, 3]) if base[2] == 'int' else r.choice([0, 2, 3, -2])
        kk = table_kind('**', base[2], 'int', lit)
        pyv = f'{base[1]} ** {lit}' if kk == 'int' else f'float({base[1]}) ** {lit}'
        e = (f'{base[0]} ** {lit}', pyv, kk)
    elif form == 'let_ann':
        op = r.choice(['+', '-', '*'])
        kk = table_kind(op, l[2], rr[2])
        e = ('q', f'{l[1]} {op} {rr[1]}', kk)
        body = f'    q: {kk} = {l[0]} {op} {rr[0]}\n    return q\n'
    elif form == 'compound':
        op = r.choice(['+', '-', '*'])
        t0 = atom(r, 'float')
        e = ('acc', f'{t0[1]} {op} {rr[1]}', 'float')
        body = f'    mut acc: float = {t0[0]}\n    acc {op}= {rr[0]}\n    return acc\n'
    elif form == 'field_compound':
        op = r.choice(['+', '-', '*'])
        v = atom(r, 'int')
        e = ('it2.price', f'it.price {op} {v[1]}', 'float')
        body = f'    mut it2: Item = Item(qty=3, price=2.5, tags=[7, 1, 9, 4], name="héllo")\n    it2.price {op}= {v[0]}\n    return it2.price\n'
    elif form == 'comp_shadow':
        op = r.choice(['+', '*', '-'])
        if r.random() < 0.5:
            e = ('ys', f'sum(v {op} 2 for v in xs)', 'int')
            body = f'    v: float = 2.5\n    ys = [v {op} 2 for v in xs]\n    mut acc: int = 0\n    for w in ys:\n        acc += w\n    return acc\n'
        else:
            e = ('ys', f'sum(v {op} 2 for v in fs)', 'float')
            body = f'    v: int = 7\n    ys = [v {op} 2 for v in fs]\n    mut acc: float = 0.0\n    for w in ys:\n        acc += w\n    return acc\n'
    elif form == 'zip':
        op = r.choice(['+', '*'])
        e = ('acc', f'sum(p[1] {op} 2 for p in zip(xs, fs))', 'float')
        body = f'    mut acc: float = 0.0\n    for p in zip(xs, fs):\n        acc += p.1 {op} 2\n    return acc\n'
    elif form == 'enumerate':
        e = ('acc', 'sum(p[0] * p[1] for p in enumerate(fs))', 'float')
        body = '    mut acc: float = 0.0\n    for p in enumerate(fs):\n        acc += p.0 * p.1\n    return acc\n'
    else:
        # comparisons may mix int and float: the operators and the (int, float) / (float, int) pairings rotate
        q = k // len(forms)
        op = ['<', '<=', '==', '>', '>=', '!='][q % 6]
        l, rr = (atom(r, 'int'), atom(r, 'float')) if (q // 6) % 2 == 0 else (atom(r, 'float'), atom(r, 'int'))
        e = (f'{l[0]} {op} {rr[0]}', f'{l[1]} {op} {rr[1]}', 'bool')
    if body is None:
        body = f'    return {e[0]}\n'
    return f'def t{k}({PARAMS}) -> {e[2]}:\n{body}\n', e[1], e[2]


def gen_c05(r, k):
    forms = ['idx', 'sidx', 'slice', 'sslice', 'forslice', 'range', 'nested_assign', 'fstring', 'matchlist', 'elem_assign', 'alias', 'bigrange']
    form = forms[k % len(forms)]          # every shape occurs in every program (indices, bounds and objects are random)
    body = None
    ints = ['i', 'j', '0', '-1', '2', '-3', 'len(xs) - 1']
    if form == 'idx':
        obj = r.choice([('xs', 'xs'), ('it.tags', 'it.tags'), ('mk()', 'mk()'), ('grid[1]', 'grid[1]'), ('grid[i % 2]', 'grid[i % 2]')])
        i = r.choice(['i % 3', '-1', '0', '2', '-2', 'j - 2'])
        e = (f'{obj[0]}[{i}]', f'{obj[1]}[{i}]', 'int')
    elif form == 'sidx':
        obj = r.choice([('s', 's'), ('it.name', 'it.name'), ('word()', 'word()')])
        i = r.choice(['i % 4', '-1', '0', '3', '-4'])
        e = (f'{obj[0]}[{i}]', f'{obj[1]}[{i}]', 'str')
    elif form in ('slice', 'sslice'):
        obj = r.choice([('xs', 'xs'), ('it.tags', 'it.tags'), ('mk()', 'mk()')]) if form == 'slice' else r.choice([('s', 's'), ('it.name', 'it.name'), ('word()', 'word()')])
        def b():
            return r.choice(['', '', 'i', 'j', '0', '1', '-1', '-2', '4', '9', '-9'])
        st, en = b(), b()
        step = r.choice(['', '', '', '1', '2', '-1', '-2', '3', 'j'])
        sub = f'{st}:{en}' + (f':{step}' if step else '')
        e = (f'{obj[0]}[{sub}]', f'{obj[1]}[{sub}]', 'List[int]' if form == 'slice' else 'str')
    elif form == 'forslice':
        sub = r.choice(['2:', ':2', '1:3', 'i:', ':j', '-2:', '::2', '7:', '3:1'])
        e = ('acc', f'sum(v * 3 + 1 for v in xs[{sub}])', 'int')
        body = f'    mut acc: int = 0\n    for v in xs[{sub}]:\n        acc += v * 3 + 1\n    return acc\n'
    elif form == 'range':
        args = r.choice(['j', 'i, j', 'j, i, -1', 'i, 10, 3', '10, i, -3', '0, j, 2', 'j, j', '5, -5, -2', 'i, j, 1'])
        e = ('acc', f'[acc := 0] and [acc := acc * 31 + q for q in range({args})] and acc', 'int')
        body = f'    mut acc: int = 0\n    for q in range({args}):\n        acc = acc * 31 + q\n    return acc\n'
        e = ('acc', f'__rangehash({args})', 'int')
    elif form == 'nested_assign':
        rr_, cc = r.choice(['1', '-1', 'i % 2']), r.choice(['0', '-1', 'j % 3'])
        e = ('g', f'__nested({rr_}, {cc})', 'int')
        body = f'    mut g: List[List[int]] = [[1, 2, 3], [4, 5, 6]]\n    g[{rr_}][{cc}] = 77\n    return g[{rr_}][{cc}] * 1000 + g[0][0] + g[1][2]\n'
    elif form == 'elem_assign':
        ii = r.choice(['1', '-1', 'i % 3', '-2'])
        e = ('ys', f'__elem({ii})', 'int')
        body = f'    mut ys: List[int] = [1, 2, 3, 5, 8]\n    ys[{ii}] = 55\n    ys[{ii}] += 3\n    return ys[{ii}] * 100 + ys[0] + ys[-1]\n'
    elif form == 'alias':
        # the registry's alias spelling of the list type, indexed with a computed negative index
        e = ('ys', '[7, 8, 9][(0 - 1)] * 10 + [7, 8, 9][i % 3]', 'int')
        body = '    ys: Vec[int] = [7, 8, 9]\n    k = 0 - 1\n    return ys[k] * 10 + ys[i % 3]\n'
    elif form == 'bigrange':
        # bounds beyond 32 bits held in un-annotated locals
        e = ('acc', '__rangehash(65536 * 65536, 65536 * 65536 + 3)', 'int')
        body = '    big = 65536 * 65536\n    mut acc: int = 0\n    for q in range(big, big + 3):\n        acc = acc * 31 + q\n    return acc\n'
    elif form == 'fstring':
        e = ('f', 'f"{xs[i % 3]}-{s[-2]}-{it.tags[-1]}"', 'str')
        body = '    return f"{xs[i % 3]}-{s[-2]}-{it.tags[-1]}"\n'
    else:
        e = ('rows', 'xs[-1] + xs[i % 3]', 'int')
        body = '    opt: Option[List[int]] = Some(xs)\n    rows = match opt:\n        Some(ys) => ys\n        None => []\n    return rows[-1] + rows[i % 3]\n'
    if body is None:
        body = f'    return {e[0]}\n'
    params = PARAMS + ', i: int, j: int'
    return f'def t{k}({params}) -> {e[2]}:\n{body}\n', e[1], e[2]


GEN = {'C04': gen_c04, 'C07': gen_c07, 'C05': gen_c05}
IJ = [(1, 4), (-2, 3), (4, -1)]


def rangehash(*a):
    acc = 0
    for q in range(*a):
        acc = (acc * 31 + q)
        acc = (acc + 2 ** 63) % 2 ** 64 - 2 ** 63      # i64 wrapping is not expected for these sizes; keep exact
    return acc


def build_program(pid, seed, n, modular=False):
    r = random.Random(f'{pid}:{seed}')
    funcs, checks = [], []
    k = 0
    attempts = 0
    while k < n and attempts < n * 20:
        attempts += 1
        text, pyexpr, kind = GEN[pid](r, k)
        rows = []
        ok = True
        for ai, args in enumerate(ARGSETS):
            env = py_env(); env.update(args)
            i, j = IJ[ai]
            env.update(i=i, j=j)
            env['__rangehash'] = rangehash
            def nested(rr_, cc, env=env):
                g = [row[:] for row in env['grid']]; g[rr_][cc] = 77
                return g[rr_][cc] * 1000 + g[0][0] + g[1][2]
            def elem(ii, env=env):
                ys = env['xs'][:]; ys[ii] = 55; ys[ii] += 3
                return ys[ii] * 100 + ys[0] + ys[-1]
            env['__nested'], env['__elem'] = nested, elem
            try:
                val = eval(pyexpr, dict(env))
            except (ZeroDivisionError, IndexError, KeyError, ValueError, OverflowError):
                ok = False
                break
            if isinstance(val, float) and (math.isnan(val) or math.isinf(val) or abs(val) > 1e15):
                ok = False
                break
            if isinstance(val, int) and not isinstance(val, bool) and abs(val) > 2 ** 53:
                ok = False
                break
            rows.append((ai, val))
        if not ok:
            continue
        if k % 3 == 2:
            # every third function runs its body inside an `elif` branch (conditions and bodies of elif branches are typed
            # and lowered like any other code)
            head, body = text.split('\n', 1)
            default = {'int': '0', 'float': '0.0', 'str': '""', 'bool': 'False', 'List[int]': 'xs[9:]'}[kind]
            inner = ''.join('    ' + ln + '\n' if ln.strip() else ln + '\n' for ln in body.rstrip('\n').split('\n'))
            text = f'{head}\n    if a > 1000000:\n        return {default}\n    elif a > -1000000:\n{inner}    return {default}\n\n'
        funcs.append(text)
        for ai, val in rows:
            checks.append((k, ai, kind, val))
        k += 1
    main = ['def main() -> None:', '    it = Item(qty=3, price=2.5, tags=[7, 1, 9, 4], name="héllo")', '    xs: List[int] = [1, 2, 3, 5, 8]', '    fs: List[float] = [0.5, 1.5, 2.25]',
            '    s: str = "héllo wörld"', '    grid: List[List[int]] = [[1, 2, 3], [4, 5, 6]]']
    for (k, ai, kind, val) in checks:
        a = ARGSETS[ai]
        call = f't{k}({a["a"]}, {a["b"]}, {a["x"]}, {a["y"]}, it, xs, fs, s, grid' + (f', {IJ[ai][0]}, {IJ[ai][1]}' if pid == 'C05' else '') + ')'
        main.append(f'    println("#{k}.{ai}")')
        if kind == 'List[int]':
            main.append(f'    for v in {call}:\n        println(v)')
        else:
            main.append(f'    println({call})')
    main.append('    println("#end")')
    if modular:
        # the same functions as IMPORTED modules: `shapes.incn` (the model and the helpers) and `gen.incn` (the test
        # functions, importing from shapes) next to the main file, which imports gen first and shapes second
        shapes = PRELUDE.replace('model Item:', 'pub model Item:').replace('\ndef ', '\npub def ')
        lib = 'from shapes import Item, half, halff, mk, word\n\n' + ''.join(f.replace('def t', 'pub def t', 1) for f in funcs)
        names = ', '.join(f't{q}' for q in range(len(funcs)))
        return {'prog.incn': f'from gen import {names}\nfrom shapes import Item\n\n' + '\n'.join(main) + '\n', 'gen.incn': lib, 'shapes.incn': shapes}, checks, funcs
    return PRELUDE + ''.join(funcs) + '\n'.join(main) + '\n', checks, funcs


def parse_output(out):
    got, cur = {}, None
    for ln in out.split('\n'):
        if ln.startswith('#'):
            cur = ln[1:]
            got[cur] = []
        elif cur is not None:
            got[cur].append(ln)
    return got


def same(kind, val, lines):
    if kind == 'List[int]':
        return [str(v) for v in val] == [l for l in lines if l != '']
    text = '\n'.join(lines).rstrip('\n')
    if kind == 'str':
        return text == val
    if kind == 'bool':
        return text.strip().lower() == str(val).lower()
    try:
        return float(text) == float(val) if kind == 'float' else int(text) == int(val)
    except ValueError:
        return False


def run_program(exe, src, workdir, timeout=900):
    shutil.rmtree(workdir, ignore_errors=True)
    os.makedirs(workdir)
    files = src if isinstance(src, dict) else {'prog.incn': src}
    for name, text in files.items():
        with open(os.path.join(workdir, name), 'w') as f:
            f.write(text)
    # one shared cargo target directory for all generated projects: the runtime crates are compiled once, not per program
    shared = os.path.join(os.path.dirname(os.path.abspath(workdir)), 'diffrun-target')
    env = dict(os.environ, CARGO_NET_OFFLINE='true', RUST_BACKTRACE='0', NO_COLOR='1', CARGO_TARGET_DIR=shared)
    p = subprocess.run([exe, 'runfile', 'prog.incn'], cwd=workdir, capture_output=True, text=True, timeout=timeout, env=env)
    return p.returncode, p.stdout, p.stderr


def check_program(exe, pid, seed, n, workdir, modular=False):
    src, checks, funcs = build_program(pid, seed, n, modular)
    shown = src if isinstance(src, str) else '\n'.join(f'# ---- {k}\n{v}' for k, v in src.items())
    rc, out, err = run_program(exe, src, workdir)
    shutil.rmtree(os.path.join(workdir, 'target'), ignore_errors=True)
    args = {'property': pid, 'seed': seed, 'functions': n, 'modular': modular}
    if rc != 0 or '#end' not in out:
        tail = (err.strip().split('\n') or [''])
        msg = '\n'.join(tail[-25:])[-1800:]
        return {'ok': False, 'args': args, 'observed': {'exit_code': rc, 'stderr_tail': msg}, 'expected': 'the program compiles (front end and rustc) and runs to the end',
                'what': 'a well-typed program over the documented arithmetic / indexing forms must build and run', 'source': shown, 'checks': len(checks)}
    got = parse_output(out)
    for (k, ai, kind, val) in checks:
        lines = got.get(f'{k}.{ai}')
        if lines is None or not same(kind, val, lines):
            return {'ok': False, 'args': dict(args, function=k, argument_set=ai), 'observed': {'printed': lines}, 'expected': {'value (documented semantics)': val if not isinstance(val, float) else repr(val), 'kind': kind},
                    'what': 'the value a compiled program prints equals the documented semantics of the expression', 'source': PRELUDE + funcs[k] + '# ... called with argument set ' + json.dumps(ARGSETS[ai]) + (f' i, j = {IJ[ai]}' if pid == 'C05' else ''), 'checks': len(checks)}
    return {'ok': True, 'args': args, 'checks': len(checks)}



# ---- programs that must STOP with the documented error (one program each: the process ends at the error)
ZDE = 'ZeroDivisionError: float division by zero'
ERROR_CASES = {
    'C04': [
        ('    println(7 // d)\n', ZDE), ('    println(x % z)\n', ZDE), ('    println(7 / d)\n', ZDE), ('    7 // d\n', ZDE),
        ('    mut q: int = 7\n    q //= d\n    println(q)\n', ZDE), ('    println(int(7 / d))\n', ZDE),
        ('    println(it.qty % d)\n', ZDE), ('    println(x // d)\n', ZDE), ('    mut w: float = 1.5\n    w %= z\n    println(w)\n', ZDE),
        ('    println(half(7) % (d * 3))\n', ZDE),
        # the ring-buffer idiom on an EMPTY list: the divisor len(e) is zero
        ('    e: List[int] = xs[3:]\n    println(e[i % len(e)])\n', ZDE),
    ],
    'C05': [
        ('    println(xs[i])\n', 'IndexError: index 7 out of range for list of length 3'),
        ('    println(xs[-4])\n', 'IndexError: index -4 out of range for list of length 3'),
        ('    println(s[9])\n', 'IndexError: string index out of range'),
        ('    println(s[::k])\n', 'ValueError: slice step cannot be zero'),
        ('    for v in xs[::k]:\n        println(v)\n', 'ValueError: slice step cannot be zero'),
        ('    println(it.tags[9])\n', 'IndexError: index 9 out of range for list of length 4'),
        ('    println(mk()[-7])\n', 'IndexError: index -7 out of range for list of length 6'),
        ('    for q in range(1, 5, k):\n        println(q)\n', 'ValueError: range() arg 3 must not be zero'),
        ('    mut ys: List[int] = [1, 2, 3]\n    ys[i] = 5\n    println(ys[0])\n', 'IndexError: index 7 out of range for list of length 3'),
        ('    println(it.name[-6])\n', 'IndexError: string index out of range'),
    ],
}


def error_program(pid, n):
    body, want = ERROR_CASES[pid][n % len(ERROR_CASES[pid])]
    src = (PRELUDE + 'def main() -> None:\n    it = Item(qty=3, price=2.5, tags=[7, 1, 9, 4], name="héllo")\n    xs: List[int] = [1, 2, 3]\n    s: str = "héllo"\n'
           '    d: int = 0\n    z: float = 0.0\n    x: float = 1.5\n    i: int = 7\n    k: int = 0\n    println("#before")\n' + body + '    println("#after")\n')
    return src, want


def check_error_program(exe, pid, n, workdir):
    src, want = error_program(pid, n)
    rc, out, err = run_program(exe, src, workdir)
    shutil.rmtree(os.path.join(workdir, 'target'), ignore_errors=True)
    args = {'property': pid, 'error_case': n % len(ERROR_CASES[pid])}
    ok = rc not in (0, 3) and '#before' in out and '#after' not in out and want in err
    if ok:
        return {'ok': True, 'args': args, 'checks': 1}
    seen = [l for l in err.split('\n') if 'Error' in l or 'panicked' in l or 'error' in l][-6:]
    return {'ok': False, 'args': args, 'observed': {'exit_code': rc, 'stdout': out[-300:], 'error_lines': seen}, 'expected': {'stops after "#before" with': want},
            'what': 'the compiled program stops with the documented error text (and only there)', 'source': src, 'checks': 1}

def run(pid, exe, build_dir, programs, n, base_seed=0):
    """returns (total value checks, first failing verdict or None)"""
    total = 0
    for q in range(programs):
        v = check_program(exe, pid, base_seed + q, n, os.path.join(build_dir, f'diffrun_{pid}_{q}'), modular=(q % 2 == 1))
        total += v.get('checks', 0)
        if not v['ok']:
            return total, v
    # error behaviour: one case per quick run (rotating with the seed), all of them in a thorough run
    if pid in ERROR_CASES:
        cases = range(len(ERROR_CASES[pid]))      # (cheap with the shared target directory: all of them on every run)
        for c in cases:
            v = check_error_program(exe, pid, c, os.path.join(build_dir, f'diffrun_{pid}_err'))
            total += 1
            if not v['ok']:
                return total, v
    return total, None


if __name__ == '__main__':
    pid, seed, n = sys.argv[1], int(sys.argv[2]), int(sys.argv[3])
    if len(sys.argv) > 4 and sys.argv[4] == 'show':
        print(build_program(pid, seed, n)[0])
    else:
        print(json.dumps(check_program(sys.argv[4], pid, seed, n, f'/tmp/exp/diffrun_{pid}'), indent=1)[:3000])
