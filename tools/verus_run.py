"""verus_run — assemble one unit, run Verus on it, and turn the output into named obligations."""
from __future__ import annotations
import json, os, re, shutil, subprocess, time
from dataclasses import dataclass, field
import assemble as asm
from rsx import LostAnchor

VERUS = shutil.which('verus') or '/usr/local/bin/verus'

# Verus diagnostics that mean "a proof obligation was refuted" (anything else that is an error is a tool problem)
REFUTED = (
    'precondition not met', 'postcondition not satisfied', 'precondition not satisfied', 'possible arithmetic underflow/overflow',
    'invariant not satisfied', 'assertion failed', 'possible division by zero', 'decreases not satisfied',
    'could not prove termination', 'loop invariant not satisfied', 'index out of bounds', 'possible bit shift',
    'recommendation not met', 'cannot show invariant holds', 'unable to prove', 'possible truncation',
    'constructed value may fail to meet its declared type invariant', 'type invariant', 'unreachable',
    'may fail to satisfy', 'failed this', 'possible overflow', 'possible underflow', 'possible negative',
)
UNDECIDED = ('Resource limit (rlimit) exceeded', 'resource limit', 'timed out', 'canceled', 'incomplete')


@dataclass
class Diag:
    message: str
    level: str
    code: str | None
    out_line: int | None
    origin: tuple | None          # (file, line)
    function: str | None
    rendered: str
    labels: list = field(default_factory=list)

    verification_phase: bool = False      # set by the runner: the diagnostic was produced while discharging obligations
    tool_limit: str | None = None         # set by the runner: the enclosing function uses a construct the verifier is known to lose facts on

    @property
    def refuted(self) -> bool:
        if self.level != 'error' or self.code is not None or self.undecided or self.tool_limit:
            return False
        if self.message.startswith('aborting due to') or 'not all errors may have been reported' in self.message:
            return False
        # Verus reports a refuted obligation as a code-less error during the verification phase (no front-end /
        # VIR error, at least one function failed). The message list is a second, independent criterion.
        return self.verification_phase or any(m in self.message for m in REFUTED)

    @property
    def undecided(self) -> bool:
        return bool(self.tool_limit) or any(m.lower() in self.message.lower() for m in UNDECIDED)


@dataclass
class UnitResult:
    unit: str
    defines: tuple
    path: str
    assembled: asm.Assembled | None
    ok: bool                      # verus ran and reported results
    tool_error: str | None        # set when the run cannot be interpreted (compile error, crash, lost anchor)
    functions: dict               # name -> dict(success, time_us, rlimit, module)
    diags: list
    obligations: dict             # function -> list of kind labels (from AIR)
    verified: int
    errors: int
    wall_s: float
    smt_ms: float
    cmd: str
    raw_stderr: str = ''

    def failed_functions(self):
        return [f for f, r in self.functions.items() if not r['success']]


def _enclosing_fn(lines: list, line_no: int) -> str | None:
    pat = re.compile(r'\bfn\s+([A-Za-z_][A-Za-z0-9_]*)')
    for k in range(min(line_no, len(lines)) - 1, -1, -1):
        m = pat.search(lines[k])
        if m and not lines[k].lstrip().startswith('//'):
            return m.group(1)
    return None


def _parse_air(logdir: str, crate: str) -> dict:
    obl: dict = {}
    if not os.path.isdir(logdir):
        return obl
    for fn in sorted(os.listdir(logdir)):
        # per-module files only; the per-function re-check files (`..._01.air`) repeat queries
        if not fn.endswith('.air') or re.search(r'\._\d+\.air$', fn):
            continue
        cur = None
        with open(os.path.join(logdir, fn), errors='replace') as f:
            lines = f.readlines()
        i = 0
        while i < len(lines):
            ln = lines[i]
            m = re.match(r';; Function-Def (\S+)', ln)
            if m:
                cur = m.group(1)
                obl.setdefault(cur, [])
            elif cur and ln.strip() == '(assert':
                lab = lines[i + 1].strip() if i + 1 < len(lines) else ''
                mm = re.match(r'\("([^"]*)"', lab)
                obl[cur].append(mm.group(1) if mm else 'assert')
            elif ln.startswith(';; Function-') and not m:
                cur = None
            i += 1
    return obl



def _guard_call_functions(a) -> dict:
    """functions of the assembled unit that contain a match arm with a GUARD that calls a function (and whose body is
    not the R16 unreachable marker). Measured on Verus 0.2026.09.13: the postcondition of an exec call made inside a
    match guard is lost (`Some(e) if !test(e) => ..` verifies less than the equivalent `if let .. { if !test(e) .. }`),
    so a failed obligation in such a function is a tool limit, not a refutation."""
    import rsx
    out = {}
    lines = a.text.split('\n')
    for it in a.items:
        if it.kind != 'fn' or not it.out_line:
            continue
        text = '\n'.join(lines[it.out_line - 1:it.out_end_line])
        try:
            toks = rsx.tokenize(text)
        except Exception:
            continue
        for j, t in enumerate(toks):
            if t.text != 'match':
                continue
            b = j + 1
            try:
                while toks[b].text != '{':
                    if toks[b].text in ('(', '['):
                        b = rsx.match_close(toks, b)
                    b += 1
                arms = asm._match_arms(toks, b)
            except Exception:
                continue
            for ps, arrow, bs, be in arms:
                pat = [x.text for x in toks[ps:arrow]]
                body = ''.join(x.text for x in toks[bs:be + 1])
                if 'if' in pat:
                    g = pat[pat.index('if'):]
                    # a call: `name (` or `. name (` — not a macro invocation such as `matches ! (..)` and not a parenthesised group
                    has_call = any(g[q] == '(' and q > 0 and re.match(r'[A-Za-z_][A-Za-z0-9_]*$', g[q - 1]) and g[q - 1] not in ('if', 'in', 'as', 'match', 'return')
                                   for q in range(len(g)))
                    if has_call and '__arm_outside_contract' not in body:
                        out[it.ident] = 'exec call inside a match guard (its postcondition is not available to Verus 0.2026.09.13)'
    return out

def _run_unit_once(template: str, build_root: str, defines=(), seed: int | None = None, rlimit: float | None = None,
             threads: int = 4, timeout: int = 600, log_air: bool = True,
             overlay: dict | None = None, tag_suffix: str = '', inline: dict | None = None) -> UnitResult:
    unit = os.path.basename(template).replace('.rs.in', '')
    tag = unit + ''.join('_' + d.lower() for d in sorted(defines)) + tag_suffix
    bdir = os.path.join(build_root, tag)
    shutil.rmtree(bdir, ignore_errors=True)
    os.makedirs(bdir)
    path = os.path.join(bdir, unit + '.rs')
    t0 = time.time()
    try:
        asm.set_overlay(overlay)
        asm.set_inline(inline)
        a = asm.assemble(template, set(defines))
    except (LostAnchor, asm.TemplateError) as e:
        return UnitResult(unit, tuple(defines), path, None, False, f'{type(e).__name__}: {e}', {}, [], {}, 0, 0,
                          time.time() - t0, 0.0, '')
    with open(path, 'w') as f:
        f.write(a.text)
    cmd = [VERUS, unit + '.rs', '--output-json', '--time', '--error-format=json', '--num-threads', str(threads),
           '--multiple-errors', '5']
    if log_air:
        cmd += ['--log', 'air', '--log-dir', 'logs']
    if seed is not None:
        cmd += ['--smt-option', f'smt.random_seed={seed % 1000}']
    if rlimit:
        cmd += ['--rlimit', str(rlimit)]
    try:
        p = subprocess.run(cmd, cwd=bdir, capture_output=True, text=True, timeout=timeout)
    except subprocess.TimeoutExpired:
        return UnitResult(unit, tuple(defines), path, a, False, f'verus timed out after {timeout}s', {}, [], {}, 0, 0,
                          time.time() - t0, 0.0, ' '.join(cmd))
    wall = time.time() - t0
    out_lines = a.text.split('\n')
    diags = []
    for ln in p.stderr.split('\n'):
        ln = ln.strip()
        if not ln.startswith('{'):
            continue
        try:
            d = json.loads(ln)
        except ValueError:
            continue
        if d.get('$message_type') != 'diagnostic':
            continue
        prim = [s for s in d.get('spans', []) if s.get('is_primary')] or d.get('spans', [])
        line = None
        for s in prim:
            if s.get('file_name', '').endswith(unit + '.rs'):
                line = s['line_start']
                break
        origin = a.origins[line - 1] if line and line - 1 < len(a.origins) else None
        # the function: an extracted item that contains the line, else the nearest `fn` above
        fn = None
        all_lines = [s['line_start'] for s in d.get('spans', []) if s.get('file_name', '').endswith(unit + '.rs')]
        for L in ([line] if line else []) + all_lines:
            for it in a.items:
                if it.out_line <= L <= it.out_end_line and it.kind == 'fn':
                    fn = it.ident
                    break
            if fn:
                break
        if fn is None and (line or all_lines):
            fn = _enclosing_fn(out_lines, line or all_lines[0])
        # prefer an origin inside /repo if any span has one
        for s in d.get('spans', []):
            if s.get('file_name', '').endswith(unit + '.rs'):
                o = a.origins[s['line_start'] - 1] if s['line_start'] - 1 < len(a.origins) else None
                if o and not o[0].startswith('T:') and (origin is None or origin[0].startswith('T:')):
                    pass
        labels = [(s.get('label'), a.origins[s['line_start'] - 1] if s.get('file_name', '').endswith(unit + '.rs') and s['line_start'] - 1 < len(a.origins) else None)
                  for s in d.get('spans', [])]
        code = d.get('code')
        diags.append(Diag(d.get('message', ''), d.get('level', ''), code['code'] if isinstance(code, dict) else code,
                          line, origin, fn, d.get('rendered') or '', labels))
    functions = {}
    verified = errors = 0
    smt_ms = 0.0
    tool_error = None
    try:
        j = json.loads(p.stdout)
        vr = j.get('verification-results', {})
        verified, errors = vr.get('verified', 0), vr.get('errors', 0)
        if vr.get('encountered-vir-error'):
            tool_error = 'verus front-end error (construct not supported or ill-formed annotation)'
        smt = j.get('times-ms', {}).get('smt', {})
        smt_ms = float(smt.get('total', 0))
        for m in smt.get('smt-run-module-times', []):
            for fb in m.get('function-breakdown', []):
                name = fb['function']
                rec = functions.setdefault(name, {'success': True, 'time_us': 0, 'rlimit': 0, 'module': m.get('module', '')})
                rec['success'] = rec['success'] and bool(fb.get('success'))
                rec['time_us'] += fb.get('time-micros', 0)
                rec['rlimit'] += fb.get('rlimit', 0)
    except ValueError:
        tool_error = 'verus produced no JSON result: ' + (p.stderr[-2000:] or p.stdout[-2000:])
    vphase = tool_error is None and errors > 0 and any(not r['success'] for r in functions.values())
    if vphase:
        # NOT supported / not allowed messages are front-end rejections even when other functions were verified
        for d in diags:
            low = d.message.lower()
            if not any(x in low for x in ('not supported', 'unsupported', 'is not allowed', 'cannot find', 'expected ', 'mismatched types')):
                d.verification_phase = True
    limits = _guard_call_functions(a)
    if limits:
        for d in diags:
            if d.function in limits and d.level == 'error' and d.code is None and not d.message.startswith('aborting due to'):
                d.tool_limit = limits[d.function]
    hard = [d for d in diags if d.level == 'error' and not d.refuted and not d.message.startswith('aborting due to')
            and 'not all errors may have been reported' not in d.message]
    if tool_error is None and hard:
        und = [d for d in hard if d.undecided]
        if und:
            tool_error = 'undecided: ' + und[0].message + (f' [tool limit in {und[0].function}: {und[0].tool_limit}]' if und[0].tool_limit else '')
        else:
            tool_error = 'verus/rustc error: ' + hard[0].message + ' @ ' + str(hard[0].origin)
    if tool_error is None and not functions and errors == 0 and verified == 0:
        tool_error = 'verus reported no functions'
    obligations = _parse_air(os.path.join(bdir, 'logs'), unit) if log_air else {}
    shutil.rmtree(os.path.join(bdir, 'logs'), ignore_errors=True)
    return UnitResult(unit, tuple(defines), path, a, tool_error is None, tool_error, functions, diags, obligations,
                      verified, errors, wall, smt_ms, ' '.join(cmd), ('\n'.join(d.rendered for d in diags if d.level == 'error')[-3000:] or p.stderr[-1500:]) if tool_error else '')


def run_unit(template: str, build_root: str, defines=(), **kw) -> UnitResult:
    """run a unit; when it does not compile because an extracted function calls a helper that is not in the
    unit (`cannot find function X`) and X is a return-free free function of the same /repo file, retry with
    the helper inlined at its call sites (rewrite R17)."""
    inline: dict = {}
    res = _run_unit_once(template, build_root, defines, **kw)
    for _ in range(3):
        if not res.tool_error:
            return res
        new = {}
        for d in res.diags:
            m = re.search(r'cannot find function `([A-Za-z_][A-Za-z0-9_]*)` in this scope', d.message)
            org = d.origin
            if m and org and not org[0].startswith('T:') and m.group(1) not in inline:
                new[m.group(1)] = org[0]
        if not new:
            return res
        inline.update(new)
        res2 = _run_unit_once(template, build_root, defines, inline=inline, **kw)
        if res2.assembled is None:      # the helper could not be inlined: keep the first, more informative result
            res.tool_error += ' ; inlining helper(s) ' + ', '.join(new) + ' failed: ' + (res2.tool_error or '')
            return res
        res = res2
    return res
