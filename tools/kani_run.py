"""kani_run — assemble a Kani harness crate from /repo's working tree, run it, parse per-harness results.

A harness crate lives in kani/<name>/: Cargo.toml (path-dependencies on the REAL crates under /repo),
lib.rs.in (assembler template: harnesses + items extracted from /repo with listed rewrites) and
harnesses.json (per harness: the function it speaks about, whether it is bounded, how to decode a
concrete-playback counterexample into the arguments of a native replay oracle).
"""
from __future__ import annotations
import json, os, re, shutil, signal, struct, subprocess, time
from dataclasses import dataclass, field
import assemble as asm
from rsx import LostAnchor

ENV = dict(os.environ, CARGO_NET_OFFLINE='true')


@dataclass
class KaniResult:
    harness: str
    function: str = '?'
    bounded: bool = False
    bound: str = ''
    status: str = 'unknown'
    n_checks: int = 0
    n_failed: int = 0
    covers: tuple = (0, 0)
    failures: list = field(default_factory=list)
    vacuous: bool = False
    tool_error: str | None = None
    trusted: list = field(default_factory=list)
    cmd: str = ''
    samples: list = field(default_factory=list)
    functions: list = field(default_factory=list)
    solver_s: float = 0.0
    cex: dict | None = None
    stubs: list = field(default_factory=list)

    def row(self):
        return {'harness': self.harness, 'function': self.function, 'bounded': self.bounded, 'bound': self.bound,
                'status': self.status, 'checks': self.n_checks, 'failed': self.n_failed, 'covers_satisfied': list(self.covers),
                'solver_s': round(self.solver_s, 2), 'stubs': self.stubs, 'tool_error': self.tool_error}


def _run(cmd, cwd, env, timeout):
    """run in its own session so that a timeout kills cbmc children too"""
    p = subprocess.Popen(cmd, cwd=cwd, env=env, stdout=subprocess.PIPE, stderr=subprocess.STDOUT, text=True,
                         start_new_session=True)
    try:
        out, _ = p.communicate(timeout=timeout)
        return p.returncode, out, False
    except subprocess.TimeoutExpired:
        try:
            os.killpg(p.pid, signal.SIGKILL)
        except ProcessLookupError:
            pass
        out, _ = p.communicate()
        return -9, out or '', True


def _prepare(name, root, build, defines):
    src = os.path.join(root, 'kani', name)
    dst = os.path.join(build, 'kani_' + name)
    os.makedirs(os.path.join(dst, 'src'), exist_ok=True)
    os.makedirs(os.path.join(dst, '.cargo'), exist_ok=True)
    a = asm.assemble(os.path.join(src, 'lib.rs.in'), set(defines))
    with open(os.path.join(dst, 'src', 'lib.rs'), 'w') as f:
        f.write(a.text)
    shutil.copy(os.path.join(src, 'Cargo.toml'), os.path.join(dst, 'Cargo.toml'))
    shutil.copy('/repo/Cargo.lock', os.path.join(dst, 'Cargo.lock'))
    with open(os.path.join(dst, '.cargo', 'config.toml'), 'w') as f:
        f.write('[net]\noffline = true\n')
    return a, dst


def _decode(vals, spec):
    """vals: list of byte lists (one per kani::any() in call order); spec: list of [name, type]"""
    out = {}
    i = 0
    for ent in spec:
        name, ty = ent[0], ent[1]
        if ty == 'const':
            out[name] = ent[2]
        elif ty == 'i64':
            out[name] = struct.unpack('<q', bytes(vals[i]))[0]; i += 1
        elif ty == 'f64':
            out[name] = 'bits:%016x' % struct.unpack('<Q', bytes(vals[i]))[0]; i += 1
        elif ty == 'f64num':
            out[name] = {'f': 'bits:%016x' % struct.unpack('<Q', bytes(vals[i]))[0]}; i += 1
        elif ty == 'i64num':
            out[name] = {'i': struct.unpack('<q', bytes(vals[i]))[0]}; i += 1
        elif ty == 'opt_i64':
            # Option<i64>::any() = bool discriminant then value
            is_some = vals[i][0] != 0; i += 1
            if is_some:
                out[name] = struct.unpack('<q', bytes(vals[i]))[0]; i += 1
            else:
                out[name] = None
        elif ty == 'u8':
            out[name] = vals[i][0]; i += 1
        elif ty == 'usize':
            out[name] = struct.unpack('<Q', bytes(vals[i]))[0]; i += 1
        elif ty == 'skip':
            i += 1
        else:
            raise ValueError(ty)
    return out


def _playback(dst, env, harness, flags, timeout):
    cmd = ['cargo', 'kani'] + flags + ['-Z', 'concrete-playback', '--concrete-playback=print', '--harness', harness]
    rc, out, to = _run(cmd, dst, env, timeout)
    fails = []
    for m in re.finditer(r'Check \d+: (\S+)\n\s*- Status: FAILURE\n\s*- Description: "(.*)"\n\s*- Location: (\S+):(\d+):\d+ in function (\S+)', out):
        fails.append({'check': m.group(1), 'description': m.group(2).strip('"'), 'file': m.group(3), 'line': int(m.group(4)), 'in': m.group(5)})
    vals = None
    # first playback block that is for an assertion (not a cover)
    for blk in re.finditer(r'/// Check for `([a-z_]+)`: (.*)\n#\[test\]\nfn \S+ \{\n\s*let concrete_vals: Vec<Vec<u8>> = vec!\[(.*?)\n\s*\];', out, re.S):
        if blk.group(1) == 'cover':
            continue
        vals = [[int(x) for x in v.split(',') if x.strip()] for v in re.findall(r'vec!\[([0-9, ]*)\]', blk.group(3))]
        break
    return fails, vals, out


def run_all(pid, crates, tier, root, build) -> list:
    results = []
    known_defines = []
    kp = os.path.join(root, 'known_findings.json')
    if os.path.exists(kp):
        known_defines = sorted({k['define'] for k in json.load(open(kp)).get('findings', [])
                                if k['property'] == pid and k.get('status') == 'known' and k.get('define')})
    for c in crates:
        name = c['name']
        meta = json.load(open(os.path.join(root, 'kani', name, 'harnesses.json')))
        hmeta = meta['harnesses']
        t0 = time.time()
        try:
            a, dst = _prepare(name, root, build, known_defines)
        except (LostAnchor, asm.TemplateError) as e:
            results.append(KaniResult(harness=f'{name}::*', tool_error=f'{type(e).__name__}: {e}'))
            continue
        env = dict(ENV, CARGO_TARGET_DIR=os.path.join(root, '.build', 'kani-target'))
        flags = ['-Z', 'stubbing'] + meta.get('flags', [])
        want = [h for h, m in hmeta.items() if tier == 'thorough' or not m.get('thorough_only')]
        cmd = ['cargo', 'kani'] + flags + ['--output-format', 'terse', '-j', str(c.get('jobs', 8))]
        for h in want:
            cmd += ['--harness', h]
        rc, out, timed_out = _run(cmd, dst, env, c.get('timeout', 1500))
        cmd_s = f'(cd {dst} && CARGO_NET_OFFLINE=true {" ".join(cmd)})'
        # ---- parse the interleaved terse output
        cur = {}
        per = {}
        stubs = {}
        lines = out.split('\n')
        i = 0
        while i < len(lines):
            ln = lines[i]
            m = re.match(r'Thread (\d+): Checking harness (\S+?)\.\.\.', ln)
            if m:
                cur[m.group(1)] = m.group(2)
                per.setdefault(m.group(2), {'text': ''})
            m2 = re.match(r'Thread (\d+):\s+- Stub: (.*)', ln)
            if m2 and m2.group(1) in cur:
                stubs.setdefault(cur[m2.group(1)], []).append(m2.group(2).replace(' ', ''))
            m3 = re.match(r'Thread (\d+):\s*$', ln)
            if m3 and m3.group(1) in cur:
                h = cur[m3.group(1)]
                j = i + 1
                blk = []
                while j < len(lines) and not lines[j].startswith('Thread ') and not lines[j].startswith('Manual Harness Summary') \
                        and not lines[j].startswith('Complete - '):
                    blk.append(lines[j]); j += 1
                per[h]['text'] += '\n'.join(blk)
                i = j
                continue
            # single-threaded fallback: "Checking harness X..."
            m4 = re.match(r'Checking harness (\S+?)\.\.\.', ln)
            if m4:
                cur['-'] = m4.group(1)
                per.setdefault(m4.group(1), {'text': ''})
            elif '-' in cur and not ln.startswith('Thread'):
                per[cur['-']]['text'] += ln + '\n'
            i += 1
        compile_failed = ('error: could not compile' in out or 'error[E' in out) and not per
        for h in want:
            hm = hmeta[h]
            kr = KaniResult(harness=f'{name}::{h}', function=hm.get('function', '?'), bounded=bool(hm.get('bounded')),
                            bound=hm.get('bound', ''), cmd=cmd_s)
            short = h.split('::')[-1]
            rec = None
            for k, v in per.items():
                if k == h or k.endswith('::' + short) or k == short:
                    rec = v; kr.stubs = stubs.get(k, [])
                    break
            if compile_failed:
                errs = re.findall(r'(error(?:\[E\d+\])?: .*)', out)
                kr.tool_error = 'harness crate does not compile against /repo: ' + '; '.join(errs[:3])
            elif rec is None or 'VERIFICATION:-' not in rec['text']:
                kr.tool_error = 'timed out' if timed_out else 'no result for this harness (kani output not understood): ' + out[-400:].replace('\n', ' | ')
            else:
                t = rec['text']
                m = re.search(r'\*\* (\d+) of (\d+) failed', t)
                if m:
                    kr.n_failed, kr.n_checks = int(m.group(1)), int(m.group(2))
                mc = re.search(r'\*\* (\d+) of (\d+) cover properties satisfied', t)
                if mc:
                    kr.covers = (int(mc.group(1)), int(mc.group(2)))
                    kr.vacuous = kr.covers[0] < kr.covers[1]
                mt = re.search(r'Verification Time: ([0-9.]+)s', t)
                if mt:
                    kr.solver_s = float(mt.group(1))
                ok = 'VERIFICATION:- SUCCESSFUL' in t
                kr.status = 'SUCCESSFUL' if ok else 'FAILED'
                if 'unwinding assertion' in t and not ok and hm.get('bounded'):
                    kr.tool_error = 'unwinding assertion failed: the stated bound does not cover the loop (bounded harness undecided)'
                if kr.n_checks == 0 and not kr.tool_error:
                    kr.tool_error = 'kani reported zero checks'
                kr.samples = [f'kani:{name}::{h}/{kr.n_checks} checks/{kr.status}']
                if ok and not hm.get('bounded'):
                    kr.functions = [{'function': hm.get('function', '?'), 'file': hm.get('file', ''), 'unit': 'kani:' + name, 'mode': h,
                                     'back_end': 'kani/cbmc', 'text': hm.get('text', 'real crate (path dependency)'),
                                     'under_contract': True, 'loops': 0}]
                if not ok and not kr.tool_error:
                    fails, vals, raw = _playback(dst, env, h, flags, c.get('timeout', 900))
                    if not fails:
                        for fm in re.finditer(r'Failed Checks: (.*)\n\s*File: "(.*)", line (\d+), in (\S+)', t):
                            fails.append({'check': '', 'description': fm.group(1), 'file': fm.group(2), 'line': int(fm.group(3)), 'in': fm.group(4)})
                    cex = None
                    if vals and hm.get('decode'):
                        try:
                            cex = {'oracle': hm.get('oracle'), 'args': _decode(vals, hm['decode']), 'raw': vals[:8]}
                        except Exception as e:
                            cex = {'decode_error': repr(e), 'raw': vals[:8]}
                    kr.cex = cex
                    for f in fails:
                        org = None
                        if f['file'].endswith('src/lib.rs') and 0 < f['line'] <= len(a.origins):
                            org = a.origins[f['line'] - 1]
                        elif '/repo/' in f['file'] or f['file'].startswith('/repo'):
                            org = (f['file'].replace('/repo/', ''), f['line'])
                        else:
                            org = (f['file'], f['line'])
                        kind = re.sub(r'[^A-Za-z0-9]+', '-', f['description'])[:60].strip('-') or 'check'
                        kr.failures.append({'kind': kind, 'origin': org, 'text': f"{f['check']}: {f['description']} @ {f['file']}:{f['line']} in {f['in']}"})
                    if not kr.failures:
                        kr.failures.append({'kind': 'failed', 'origin': None, 'text': t[-600:]})
            # trusted base of this harness: stubs + assumes in the template
            kr.trusted = [f'kani:{name}::{h}: stub {s}' for s in kr.stubs]
            results.append(kr)
        # assumptions in the assembled harness file
        tb = []
        for n, ln in enumerate(a.text.split('\n')):
            if 'kani::assume' in ln and not ln.strip().startswith('//'):
                tb.append(f'kani:{name}: {ln.strip()[:160]}  [{a.origins[n][0]}:{a.origins[n][1]}]')
        if results:
            results[-1].trusted = results[-1].trusted + tb
            results[-1].samples += [f'rewrite: {r}' for r in a.rewrites[:0]]
        # remember rewrites for the evidence through a pseudo-result? keep simple: attach to first result
        for r in results:
            if r.harness.startswith(name + '::') and not hasattr(r, '_rw'):
                r.rewrites = a.rewrites
                break
    return results
