#!/bin/bash
# confirm_seeded.sh <worktree> <k> <demo destination (relative)> <cargo test args for the demo...>
# Confirms a seeded change: demo passes without the patch, fails with it, and the full suite passes with it.
set -u
WT=$1; K=$2; DEST=$3; shift 3
cd "$WT" || exit 2
git checkout -q -- . ; git clean -fdq -e seeded_out -e target
LOG=$WT/seeded_out/$K/confirm.log; : > $LOG
mkdir -p "$(dirname "$DEST")"; cp seeded_out/$K/demo.rs "$DEST"
cargo test --offline "$@" >>$LOG 2>&1; A=$?
echo "demo without patch: exit $A" | tee -a $LOG
git apply seeded_out/$K/patch.diff || { echo "patch does not apply" | tee -a $LOG; exit 2; }
cargo test --offline "$@" >>$LOG 2>&1; B=$?
echo "demo with patch: exit $B" | tee -a $LOG
rm -f "$DEST"; [ -d crates/incan_syntax/tests ] && [ -z "$(ls -A crates/incan_syntax/tests)" ] && rmdir crates/incan_syntax/tests
cargo test --workspace --no-fail-fast --offline >$WT/seeded_out/$K/suite.log 2>&1; C=$?
P=$(grep -h "^test result" $WT/seeded_out/$K/suite.log | awk '{p+=$4; f+=$6} END {print p" passed, "f" failed"}')
echo "full suite with patch: exit $C ($P)" | tee -a $LOG
git checkout -q -- . ; git clean -fdq -e seeded_out -e target
if [ $A -eq 0 ] && [ $B -ne 0 ] && [ $C -eq 0 ]; then echo "CONFIRMED" | tee -a $LOG; else echo "NOT CONFIRMED" | tee -a $LOG; fi
