"""sensitivity — thorough-tier self-test of the contracts: seeded edits of the extracted text (applied to an
in-memory overlay of the source files, never to /repo) must be rejected by the unit that owns the function.

 * curated edits (sensitivity/curated.json): hand-checked to change behaviour inside the contract's
   precondition; a survivor means a contract is weaker than designed -> the run is undecided (exit 2).
 * generated edits: classic mutation operators on the tokens of every function under contract; equivalent
   mutants exist, so survivors are only reported (kill ratio + list) in the evidence.
"""
from __future__ import annotations
import json, os, random
from concurrent.futures import ThreadPoolExecutor
import rsx, verus_run, assemble as asm

FLIPS = {'<': ['<='], '<=': ['<'], '>': ['>='], '>=': ['>'], '==': ['!='], '!=': ['=='], '+': ['-'], '-': ['+'],
         '&&': ['||'], '||': ['&&'], '+=': ['-='], '-=': ['+=']}
CONSTS = {'0': ['1'], '1': ['0', '2'], '-1': ['0']}


def _unit_items(template, defines):
    asm.set_overlay(None)
    a = asm.assemble(template, set(defines))
    return [it for it in a.items if it.kind == 'fn' and it.has_contract and not it.ident.endswith('__canary')
            and it.flags.get('count') != 'no']


def generate(template, defines, rng, per_fn=6):
    muts = []
    for it in _unit_items(template, defines):
        src = asm.read_repo(it.file)
        try:
            item = rsx.find_item(it.file, src, 'fn', it.name, in_impl=it.in_impl, in_mod=it.flags.get('in_mod'))
        except rsx.LostAnchor:
            continue
        cands = []
        toks = item.toks
        for j in range(item.open_tok + 1, item.close_tok):
            t = toks[j]
            if t.kind == 'punct' and t.text in FLIPS:
                # skip unary minus / generics / arrows
                prev = toks[j - 1]
                if t.text in ('-', '+') and (prev.kind == 'punct' and prev.text not in (')', ']')):
                    continue
                if t.text in ('<', '>') and (prev.text == '::' or toks[j + 1].text in ('>', ',') or prev.kind == 'ident' and prev.text[:1].isupper()):
                    continue
                for r in FLIPS[t.text]:
                    cands.append((t.start, t.end, r, f'{t.text} -> {r}'))
            elif t.kind == 'lit' and t.text in CONSTS:
                for r in CONSTS[t.text]:
                    cands.append((t.start, t.end, r, f'{t.text} -> {r}'))
        rng.shuffle(cands)
        for (a, b, r, desc) in cands[:per_fn]:
            line = src.count('\n', 0, a) + 1
            muts.append({'id': f'{it.ident}@{it.file}:{line}:{desc}', 'file': it.file, 'start': a, 'end': b, 'replace': r,
                         'function': it.ident, 'curated': False})
    return muts


def load_curated(root, pid, unit):
    p = os.path.join(root, 'sensitivity', 'curated.json')
    if not os.path.exists(p):
        return []
    out = []
    for m in json.load(open(p)):
        if m['property'] != pid or m['unit'] != unit:
            continue
        try:
            src = asm.read_repo(m['file'])
        except OSError:
            continue
        n = src.count(m['find'])
        nth = m.get('nth', 0)
        if n <= nth or (n != 1 and 'nth' not in m):
            out.append({'id': m['id'], 'stale': f"pattern occurs {n} time(s) in {m['file']}", 'curated': True, 'function': m.get('function', '?')})
            continue
        pos = -1
        for _ in range(nth + 1):
            pos = src.index(m['find'], pos + 1)
        out.append({'id': m['id'], 'file': m['file'], 'start': pos, 'end': pos + len(m['find']), 'replace': m['replace'],
                    'function': m.get('function', '?'), 'curated': True})
    return out


def run(pid, units, root, build, seed, per_fn=6):
    """units: list of (template_path, defines). returns dict for the evidence + list of fatal survivors"""
    rng = random.Random(seed)
    jobs = []
    for template, defines in units:
        unit = os.path.basename(template).replace('.rs.in', '')
        ms = load_curated(root, pid, unit) + generate(template, defines, rng, per_fn)
        for k, m in enumerate(ms):
            jobs.append((template, defines, unit, k, m))

    def do(job):
        template, defines, unit, k, m = job
        if m.get('stale'):
            return m, 'stale'
        src = asm.read_repo(m['file'])
        text = src[:m['start']] + m['replace'] + src[m['end']:]
        res = verus_run.run_unit(template, os.path.join(build, 'sens'), defines, threads=2, timeout=300, log_air=False,
                                 overlay={m['file']: text}, tag_suffix=f'_m{k}')
        import shutil
        shutil.rmtree(os.path.dirname(res.path), ignore_errors=True)
        if any(d.refuted for d in res.diags):
            return m, 'killed'
        if res.tool_error:
            return m, 'undecided'
        return m, 'survived'
    with ThreadPoolExecutor(max_workers=6) as ex:
        results = list(ex.map(do, jobs))
    asm.set_overlay(None)
    # a mutant is run once per mode of its unit; it is killed if ANY mode rejects it
    # killed if any mode kills it; undecided if some mode could not be decided; survived only if every mode accepted it
    order = {'killed': 0, 'undecided': 1, 'survived': 2, 'stale': 3}
    best = {}
    for m, st in results:
        key = (m['curated'], m['id'])
        if key not in best or order[st] < order[best[key][1]]:
            best[key] = (m, st)
    summary = {'curated': {'total': 0, 'killed': 0, 'survived': [], 'stale': [], 'undecided': []},
               'generated': {'total': 0, 'killed': 0, 'undecided': 0, 'survived': []}}
    for m, st in best.values():
        g = summary['curated' if m['curated'] else 'generated']
        g['total'] += 1
        if st == 'killed':
            g['killed'] += 1
        elif st == 'survived':
            g['survived'].append(m['id'])
        elif st == 'stale':
            g['stale'].append(m['id'] + ' (' + m['stale'] + ')')
        elif m['curated']:
            g['undecided'].append(m['id'])
        else:
            g['undecided'] += 1
    return summary, summary['curated']['survived']
