"""replay — native replay of counterexamples / known-finding witnesses on the REAL code of /repo."""
from __future__ import annotations
import json, os, shutil, subprocess, sys

ENV = dict(os.environ, CARGO_NET_OFFLINE='true')

# function (as named in a unit) -> oracles of replay/src/oracles.rs that exercise it on the real crates
ORACLES = {
    'C04': {
        'core::py_mod_i64_impl': ['core::py_mod_i64_impl'],
        'core::py_floor_div_i64_impl': ['core::py_floor_div_i64_impl'],
        'stdlib::py_mod_i64_impl': ['stdlib::py_mod_i64', 'stdlib::py_mod'],
        'stdlib::py_floor_div_i64_impl': ['stdlib::py_floor_div_i64', 'stdlib::py_floor_div'],
        'stdlib::py_mod_i64': ['stdlib::py_mod_i64'],
        'stdlib::py_floor_div_i64': ['stdlib::py_floor_div_i64'],
        'stdlib::raise_zero_division': ['stdlib::py_mod_i64', 'stdlib::py_floor_div_i64', 'stdlib::py_mod', 'stdlib::py_floor_div', 'stdlib::py_div'],
        'IncanError::zero_division': ['stdlib::py_mod_i64', 'stdlib::py_div'],
        'IncanError::new': ['stdlib::py_mod_i64', 'stdlib::py_div'],
        'core::py_mod_f64_impl': ['core::py_mod_f64_impl'],
        'stdlib::py_mod_f64_impl': ['stdlib::py_mod_f64', 'stdlib::py_mod'],
        'stdlib::py_mod_f64': ['stdlib::py_mod_f64'],
        'stdlib::py_floor_div_f64': ['stdlib::py_floor_div_f64'],
        'stdlib::py_mod': ['stdlib::py_mod'], 'stdlib::py_floor_div': ['stdlib::py_floor_div'], 'stdlib::py_div': ['stdlib::py_div'],
        'emit::determine_binop_plan': ['incan::binop_plan'], 'emit::emit_binop_token': ['incan::binop_plan'],
        'emit::emit_binop_expr': ['incan::emit_division'], 'emit::NumericConversion::apply': ['incan::emit_division'],
        'parser::compound_assignment(field)': ['incan::emit_division'], 'parser::compound_assignment(index)': ['incan::emit_division'],
        'emit::emit_stmt(Expr)': ['incan::emit_division'], 'emit::emit_builtin_call(Int)': ['incan::emit_division'], 'emit::emit_builtin_call(Float)': ['incan::emit_division'],
        'lowering::lower_statement(CompoundAssignment)': ['incan::emit_division'], 'lowering::lower_expr(Binary)': ['incan::emit_division'],
        '*': ['core::py_mod_i64_impl', 'core::py_floor_div_i64_impl', 'stdlib::py_mod_i64', 'stdlib::py_floor_div_i64', 'stdlib::py_mod',
              'stdlib::py_floor_div', 'stdlib::py_div', 'core::py_mod_f64_impl', 'stdlib::py_mod_f64', 'stdlib::py_floor_div_f64',
              'incan::binop_plan', 'incan::emit_division', 'incan::fstring_operands'],
    },
    'C05': {
        'core::str_len': ['core::str_char_at', 'core::str_slice'],
        'core::normalize_index': ['core::str_char_at', 'stdlib::str_index'],
        'core::str_char_at': ['core::str_char_at', 'stdlib::str_index'],
        'core::str_slice': ['core::str_slice', 'stdlib::str_slice'],
        'stdlib::list_get': ['stdlib::list_get'],
        'stdlib::list_get_mut': ['stdlib::list_get_mut'],
        'stdlib::list_slice': ['stdlib::list_slice'],
        'stdlib::dict_get': ['stdlib::dict_get', 'stdlib::dict_get_str'],
        'core::key_not_found_in_dict': ['stdlib::dict_get_str'], 'KeyNotFoundInDict::new': ['stdlib::dict_get_str'],
        'stdlib::PyRange::next': ['stdlib::range'],
        'stdlib::range': ['stdlib::range'],
        'stdlib::str_index': ['stdlib::str_index'],
        'stdlib::str_slice': ['stdlib::str_slice'],
        'emit::emit_index_expr': ['incan::emit_slice'], 'emit::emit_slice_expr': ['incan::emit_slice'],
        'emit::emit_list_get_mut_lvalue': ['incan::emit_slice'], 'emit::emit_range_call': ['incan::emit_range'],
        'lowering::lower_expr(Index)': ['incan::emit_slice'], 'lowering::lower_expr(Slice)': ['incan::emit_slice'],
        'parser::parse_slice': ['incan::emit_slice'], 'parser::index_or_slice': ['incan::emit_slice'], 'parser::peek': ['incan::emit_slice'],
        'parser::is_at_end': ['incan::emit_slice'], 'parser::advance': ['incan::emit_slice'], 'parser::check': ['incan::emit_slice'],
        'parser::match_token': ['incan::emit_slice'], 'parser::expect': ['incan::emit_slice'],
        '*': ['core::str_char_at', 'core::str_slice', 'stdlib::str_index', 'stdlib::str_slice', 'stdlib::list_get', 'stdlib::list_get_mut',
              'stdlib::list_slice', 'stdlib::dict_get', 'stdlib::dict_get_str', 'stdlib::range', 'incan::emit_slice', 'incan::emit_range', 'incan::multifile_index'],
    },
    'C07': {
        'adapters::extract_int_literal': ['incan::exponent_kind'], 'adapters::pow_exponent_kind_from_ast': ['incan::exponent_kind'],
        'adapters::pow_exponent_kind_from_ir': ['incan::exponent_kind', 'incan::binop_plan'],
        'lowering::extract_int_literal': [], 'lowering::pow_exponent_kind': [],
        'emit::determine_binop_plan': ['incan::binop_plan'], 'emit::emit_binop_token': ['incan::binop_plan'],
        'checker::check_binary': ['incan::static_type'],
        'emit::emit_binop_expr': ['incan::emit_promotion'], 'emit::NumericConversion::apply': ['incan::emit_promotion'],
        'emit::try_emit_static_str_add': ['incan::emit_promotion'],
        'parser::compound_assignment(field)': ['incan::compound_assign'], 'parser::compound_assignment(index)': ['incan::compound_assign'],
        'lowering::lower_statement(CompoundAssignment)': ['incan::emit_promotion', 'incan::compound_assign'],
        'lowering::lower_expr(Binary)': ['incan::emit_promotion', 'incan::static_type'],
        'checker::types_compatible(int/float)': ['incan::static_type'], 'checker::check_return': ['incan::static_type'], 'checker::eval_const_expr(arithmetic)': ['incan::static_type'], 'checker::check_assignment': ['incan::static_type'],
        '*': ['core::policy', 'incan::exponent_kind', 'incan::binop_plan', 'incan::static_type', 'incan::emit_promotion', 'incan::static_type_nested', 'incan::compound_assign', 'incan::emit_division', 'incan::static_type_sources', 'incan::multifile_promotion', 'incan::fstring_operands'],
    },
    'C19': {
        'lsp::offset_to_position': ['lsp::offset_to_position', 'lsp::round_trip', 'lsp::monotone', 'lsp::span_to_range'],
        'lsp::position_to_offset': ['lsp::position_to_offset', 'lsp::round_trip'],
        'lsp::span_to_range': ['lsp::span_to_range'],
        'syntax::get_line_info': ['syntax::get_line_info'],
        'lsp::compile_error_to_diagnostic': ['lsp::diagnostic_range'],
        '*': ['lsp::offset_to_position', 'lsp::round_trip', 'lsp::position_to_offset', 'lsp::monotone', 'lsp::span_to_range', 'syntax::get_line_info', 'lsp::diagnostic_range', 'lsp::server_ranges', 'incan::fmt_error_location', 'lsp::published_ranges', 'lsp::dependency_ranges', 'lsp::pipe_ranges', 'incan::cli_check_location'],
    },
}


def _target(root):
    return os.path.join(root, '.build', 'replay-target')


def build(root, crate='replay'):
    """(re)build the native driver against /repo's current working tree. Returns path or None."""
    features = []
    tdir = _target(root)
    if crate == 'replay_lsp+lsp':
        crate, features, tdir = 'replay_lsp', ['--features', 'lsp'], _target(root) + '-lsp'
    cdir = os.path.join(root, crate)
    try:
        shutil.copy('/repo/Cargo.lock', os.path.join(cdir, 'Cargo.lock'))
    except OSError:
        pass
    env = dict(ENV, CARGO_TARGET_DIR=tdir)
    p = subprocess.run(['cargo', 'build', '--release', '--offline', '-q'] + features, cwd=cdir, env=env, capture_output=True, text=True)
    exe = os.path.join(tdir, 'release', 'verif_' + crate)
    if p.returncode != 0 or not os.path.exists(exe):
        sys.stderr.write('replay driver build failed:\n' + p.stderr[-1500:] + '\n')
        return None
    return exe


def _run(exe, args, timeout=300):
    p = subprocess.run([exe] + args, capture_output=True, text=True, timeout=timeout)
    line = p.stdout.strip().split('\n')[-1] if p.stdout.strip() else ''
    try:
        return json.loads(line)
    except ValueError:
        return {'error': 'driver produced no JSON', 'stderr': p.stderr[-500:], 'code': p.returncode}


def crate_for(oracle: str) -> str:
    if oracle.startswith('lsp::') or oracle.startswith('incan::') or oracle.startswith('diffrun::'):
        return 'replay_lsp+lsp'
    return 'replay_lsp' if oracle.startswith('syntax::') else 'replay'


def known_classes(root, pid):
    p = os.path.join(root, 'known_findings.json')
    if not os.path.exists(p):
        return []
    return [k['class'] for k in json.load(open(p)).get('findings', []) if k['property'] == pid and k.get('status') == 'known' and k.get('class')]


def find_counterexample(pid, failure, root, build_dir, tier):
    table = ORACLES.get(pid, {})
    fn = failure.function
    base = fn.replace('__canary', '')
    base = base.split('<')[0].split(' (')[0]
    oracles = table.get(base) or table.get(base.split('::', 1)[-1]) or table.get('*', [])
    # a counterexample delivered by the verifier (Kani concrete playback), decoded by kani_run
    given = None
    for lab, val in failure.labels:
        if lab == 'cex' and val:
            given = val
    skip = ','.join(known_classes(root, pid))
    budget = '200000' if tier == 'quick' else '3000000'
    exes = {}
    def exe_for(o):
        c = crate_for(o)
        if c not in exes:
            exes[c] = build(root, c)
        return exes[c]
    if given and given.get('oracle'):
        exe = exe_for(given['oracle'])
        if exe:
            v = _run(exe, ['call', given['oracle'], json.dumps(given['args'])])
            if v.get('ok') is False and not (v.get('class') and v['class'] in skip.split(',')):
                return {'counterexample': {'oracle': given['oracle'], 'args': v.get('args'), 'observed': v.get('observed'),
                                           'expected': v.get('expected'), 'what': v.get('what'),
                                           'source': 'verifier counterexample (Kani concrete playback), replayed on the real code (release profile)'},
                        'replayed_on_real_code': True}
    for o in oracles:
        exe = exe_for(o)
        if not exe:
            continue
        seed = os.environ.get('VERIF_SEED', '0')
        try:
            v = _run(exe, ['search', o, seed, budget, skip], timeout=600)
        except subprocess.TimeoutExpired:
            continue
        if v.get('found'):
            c = v['case']
            return {'counterexample': {'oracle': o, 'args': c.get('args'), 'observed': c.get('observed'), 'expected': c.get('expected'),
                                       'what': c.get('what'), 'class': c.get('class'),
                                       'source': f'native search over a boundary grid and pseudo-random inputs (seed {seed}, {v.get("tried")} cases) '
                                                 f'on the real code (release profile); the verifier gave no model, or its model did not replay'},
                    'replayed_on_real_code': True}
    return None


def standin_search(pid, root, tier):
    """search every oracle of the property on the real code (used only when the verifier is undecided)"""
    skip = ','.join(known_classes(root, pid))
    budget = '100000' if tier == 'quick' else '2000000'
    seed = os.environ.get('VERIF_SEED', '0')
    tried = []
    # oracles that are exhaustive enumerations of stated program / document shapes run in full as bounded stand-ins on
    # every check: searching them again (the generator only cycles through the same cases) adds nothing
    try:
        import config as _cfg
        enumerated = {b['oracle'] for b in _cfg.PROPS.get(pid, {}).get('bounded_standins', [])}
    except Exception:
        enumerated = set()
    for o in ORACLES.get(pid, {}).get('*', []):
        if o in enumerated:
            tried.append((o, 'enumerated in full by the bounded stand-in'))
            continue
        exe = build(root, crate_for(o))
        if not exe:
            tried.append((o, 'driver build failed'))
            continue
        try:
            v = _run(exe, ['search', o, seed, budget, skip], timeout=600)
        except subprocess.TimeoutExpired:
            tried.append((o, 'timeout'))
            continue
        tried.append((o, v.get('tried')))
        if v.get('found'):
            c = v['case']
            return {'counterexample': {'oracle': o, 'args': c.get('args'), 'observed': c.get('observed'), 'expected': c.get('expected'),
                                       'what': c.get('what'), 'class': c.get('class'),
                                       'source': f'native search over a boundary grid and pseudo-random inputs (seed {seed}) on the real code (release profile)'},
                    'replayed_on_real_code': True, 'searched': tried}
    return {'counterexample': None, 'searched': tried}


def run_pins(pid, pins, root):
    """concrete executions on the real code; returns (n_ok, failures[list of verdict dicts])"""
    ok, bad = 0, []
    exes = {}
    for oracle, args in pins:
        c = crate_for(oracle)
        if c not in exes:
            exes[c] = build(root, c)
        if not exes[c]:
            bad.append({'oracle': oracle, 'args': args, 'error': 'driver build failed'})
            continue
        v = _run(exes[c], ['call', oracle, json.dumps(args)])
        if v.get('ok') is True:
            ok += 1
        else:
            v['oracle'] = oracle
            bad.append(v)
    return ok, bad


def run_bounded(pid, items, root):
    """exhaustive small enumerations on the real code; returns list of rows, each possibly with a counterexample"""
    skip = ','.join(known_classes(root, pid))
    rows = []
    for it in items:
        exe = build(root, crate_for(it['oracle']))
        if not exe:
            rows.append({'oracle': it['oracle'], 'error': 'driver build failed (does /repo still compile?)'})
            continue
        if it['oracle'].startswith('diffrun::'):
            # seeded programs through the WHOLE pipeline (front end, code generator, cargo/rustc, execution) against Python's values
            import diffrun
            tier = os.environ.get('VERIF_TIER_EFFECTIVE', 'quick')
            programs = it.get('programs_thorough', 4) if tier == 'thorough' else it.get('programs_quick', 1)
            try:
                total, bad = diffrun.run(pid, exe, os.path.join(root, '.build'), programs, it['functions'], int(os.environ.get('VERIF_SEED', '0') or 0) * 100)
            except subprocess.TimeoutExpired:
                rows.append({'oracle': it['oracle'], 'error': 'timeout while building / running a generated program'})
                continue
            row = {'oracle': it['oracle'], 'bound': it['bound'], 'function': it['function'], 'cases': total, 'result': 'no failing case' if bad is None else 'FAILING CASE'}
            if bad is not None:
                row['counterexample'] = {'oracle': it['oracle'], 'args': bad['args'], 'observed': bad['observed'], 'expected': bad['expected'], 'what': bad['what'],
                                         'class': None, 'program': bad.get('source', '')[-2500:], 'source': 'bounded stand-in: seeded programs compiled, built and run through the real pipeline'}
            rows.append(row)
            continue
        v = _run(exe, ['search', it['oracle'], '0', str(it['cases']), skip], timeout=600)
        row = {'oracle': it['oracle'], 'bound': it['bound'], 'function': it['function'], 'cases': v.get('tried'), 'result': 'no failing case' if v.get('found') is False else 'FAILING CASE'}
        if v.get('found'):
            c = v['case']
            row['counterexample'] = {'oracle': it['oracle'], 'args': c.get('args'), 'observed': c.get('observed'), 'expected': c.get('expected'), 'what': c.get('what'),
                                     'class': c.get('class'), 'source': 'bounded stand-in: exhaustive enumeration through the real front end'}
        elif 'found' not in v:
            row['error'] = json.dumps(v)[:300]
        rows.append(row)
    return rows


def replay_known(k, root):
    """True: still reproduces; False: no longer reproduces; None: could not run."""
    exe = build(root, crate_for(k['oracle']))
    if not exe:
        return None, 'driver build failed'
    v = _run(exe, ['call', k['oracle'], json.dumps(k['args'])])
    if 'ok' not in v:
        return None, json.dumps(v)[:300]
    if v['ok'] is False:
        return True, f"witness {json.dumps(k['args'])} -> observed {json.dumps(v.get('observed'))}, expected {json.dumps(v.get('expected'))}"
    return False, f"witness {json.dumps(k['args'])} now passes"


def rerun(path, root):
    rec = json.load(open(path))
    cx = rec.get('counterexample')
    print(f"obligation: {rec.get('obligation')}")
    print(f"location:   {rec.get('repo_location')}")
    if not cx:
        print('no concrete input was recorded for this obligation (no-failing-input-found); verifier output follows')
        print(rec.get('verifier_output', ''))
        return 1
    exe = build(root, crate_for(cx['oracle']))
    if not exe:
        return 2
    if cx['oracle'].startswith('diffrun::'):
        # regenerate the same seeded program and run it again through the whole pipeline
        import diffrun
        a = cx['args']
        if 'error_case' in a:
            v = diffrun.check_error_program(exe, a['property'], a['error_case'], os.path.join(root, '.build', 'diffrun_replay'))
        else:
            v = diffrun.check_program(exe, a['property'], a['seed'], a['functions'], os.path.join(root, '.build', 'diffrun_replay'), modular=a.get('modular', False))
        print(json.dumps({k: v[k] for k in v if k != 'source'}, indent=1))
        if not v['ok']:
            print(v.get('source', '')[-3000:])
        return 1 if v.get('ok') is False else 0
    v = _run(exe, ['call', cx['oracle'], json.dumps(cx['args'])])
    print(json.dumps(v, indent=1))
    return 1 if v.get('ok') is False else 0
