#!/usr/bin/env python3
"""spec_conformance — ties the Verus spec functions (specs/py_divmod.rs, specs/py_seq.rs) to the reference
implementation: ground instances computed by the installed CPython are asserted `by(compute_only)` against the spec
functions themselves (no repository code involved). A failing assertion means a top-level postcondition is wrong."""
import itertools, json, os, random, re, subprocess, sys, shutil
ROOT = os.path.dirname(os.path.dirname(os.path.abspath(__file__)))
MIN, MAX = -2**63, 2**63 - 1
GRID = [MIN, MIN + 1, -2**62, -7, -3, -2, -1, 0, 1, 2, 3, 7, 2**62, MAX - 1, MAX]


def opt(v):
    return 'None::<int>' if v is None else f'Some({v}int)'


def seq(xs):
    return 'Seq::<int>::empty()' if not xs else 'seq![' + ', '.join(f'{x}int' for x in xs) + ']'


def generate(seed, n_each=40):
    rnd = random.Random(seed)
    def ri():
        c = rnd.random()
        return rnd.choice(GRID) if c < .45 else rnd.randint(-9, 9) if c < .9 else rnd.randint(MIN, MAX)
    A = []
    for _ in range(n_each):
        a, b = ri(), ri()
        if b == 0:
            continue
        A.append(f'assert(py_floor({a}, {b}) == {a // b} && py_rem({a}, {b}) == {a % b}) by(compute_only);')
        A.append(f'assert(is_py_divmod({a}, {b}, {a // b}, {a % b})) by(compute_only);')
    for _ in range(n_each):
        n, i = rnd.randint(0, 6), ri()
        try:
            k = list(range(n)).index(list(range(n))[i]); exp = f'Some({k}int)'
        except IndexError:
            exp = 'None::<int>'
        A.append(f'assert(py_index({n}, {i}) == {exp}) by(compute_only);')
    for _ in range(n_each * 2):
        xs = [k * 10 + 1 for k in range(rnd.randint(0, 5))]
        st, en, sp = (None if rnd.random() < .25 else ri() for _ in range(3))
        if sp == 0:
            continue
        exp = xs[st:en:sp]
        A.append(f'assert(py_slice({seq(xs)}, {opt(st)}, {opt(en)}, {1 if sp is None else sp}) =~= {seq(exp)}) by(compute_only);')
    for _ in range(n_each):
        a, b, c = ri(), ri(), ri()
        if c == 0:
            continue
        r = range(a, b, c)
        first = list(itertools.islice(iter(r), 8))
        if len(first) > 6:
            continue
        A.append(f'assert(range_seq({a}, {b}, {c}) =~= {seq(first)}) by(compute_only);')
        n = 0 if not first else (r[-1] - r[0]) // c + 1
        A.append(f'assert(py_take_len({a}, {b}, {c}) == {n}) by(compute_only);')
    return A


def chr_lit(c):
    return "'\\n'" if c == '\n' else "'\\r'" if c == '\r' else "'\\u{%x}'" % ord(c)


def generate_c19(seed, n=40):
    """documents as Seq<char>: byte offsets and (line, column) by counting, computed by CPython"""
    rnd = random.Random(seed)
    pool = ['a', 'b', ' ', '\n', '\r', 'é', '日', '😀', '¿', '\u07ff', '\uffff']
    A = []
    for _ in range(n):
        doc = [rnd.choice(pool) for _ in range(rnd.randint(0, 6))]
        sq = 'Seq::<char>::empty()' if not doc else 'seq![' + ', '.join(chr_lit(c) for c in doc) + ']'
        k = rnd.randint(0, len(doc))
        pre = ''.join(doc[:k])
        line = pre.count('\n')
        col = len(pre) - (pre.rfind('\n') + 1)
        A.append(f'assert(byte_off({sq}, {k}) == {len(pre.encode("utf-8"))}) by(compute);')
        A.append(f'assert(pos_of({sq}, {k}) == ({line}int, {col}int)) by(compute_only);')
    return A


def main_c19(build_dir, seed):
    os.makedirs(build_dir, exist_ok=True)
    A = generate_c19(seed)
    body = ''
    for k in range(0, len(A), 10):
        body += f'proof fn conformance_{k // 10}() {{\n    ' + '\n    '.join(A[k:k + 10]) + '\n}\n'
    specs = open(os.path.join(ROOT, 'specs', 'utf8_pos.rs')).read()
    text = ('#![allow(unused_imports)]\nuse vstd::prelude::*;\nuse vstd::utf8::*;\nuse vstd::string::*;\nverus! {\n' + specs + body + '\n} // verus!\nfn main() {}\n')
    open(os.path.join(build_dir, 'spec_conformance.rs'), 'w').write(text)
    p = subprocess.run(['verus', 'spec_conformance.rs', '--output-json', '--num-threads', '8'], cwd=build_dir, capture_output=True, text=True, timeout=900)
    try:
        vr = json.loads(p.stdout)['verification-results']
    except Exception:
        return {'ok': False, 'error': (p.stderr or p.stdout)[-600:], 'assertions': len(A)}
    out = {'ok': bool(vr.get('success')), 'assertions': len(A), 'verified_fns': vr.get('verified'), 'errors': vr.get('errors'),
           'reference': 'CPython ' + sys.version.split()[0] + ' (str.encode, counting)'}
    if not out['ok']:
        out['error'] = p.stderr[-1200:]
    return out


def main(build_dir, seed):
    os.makedirs(build_dir, exist_ok=True)
    A = generate(seed)
    body = ''
    for k in range(0, len(A), 12):
        body += f'proof fn conformance_{k // 12}() {{\n    ' + '\n    '.join(A[k:k + 12]) + '\n}\n'
    specs = ''
    for f in ('py_divmod.rs', 'py_seq.rs'):
        specs += open(os.path.join(ROOT, 'specs', f)).read() + '\n'
    text = ('#![allow(unused_imports)]\nuse vstd::prelude::*;\nuse vstd::arithmetic::div_mod::*;\nverus! {\n' + specs + body + '\n} // verus!\nfn main() {}\n')
    path = os.path.join(build_dir, 'spec_conformance.rs')
    open(path, 'w').write(text)
    p = subprocess.run(['verus', 'spec_conformance.rs', '--output-json', '--num-threads', '8'], cwd=build_dir, capture_output=True, text=True, timeout=900)
    try:
        vr = json.loads(p.stdout)['verification-results']
    except Exception:
        return {'ok': False, 'error': (p.stderr or p.stdout)[-600:], 'assertions': len(A)}
    out = {'ok': bool(vr.get('success')), 'assertions': len(A), 'verified_fns': vr.get('verified'), 'errors': vr.get('errors'),
           'reference': 'CPython ' + sys.version.split()[0]}
    if not out['ok']:
        out['error'] = p.stderr[-1200:]
    return out


if __name__ == '__main__' and len(sys.argv) > 1 and sys.argv[1] == 'c19':
    r = main_c19(os.path.join(ROOT, '.build', 'spec_conf19'), int(os.environ.get('VERIF_SEED', '0')))
    print(json.dumps(r))
    sys.exit(0 if r['ok'] else 1)
if __name__ == '__main__':
    r = main(os.path.join(ROOT, '.build', 'spec_conf'), int(os.environ.get('VERIF_SEED', '0')))
    print(json.dumps(r))
    sys.exit(0 if r['ok'] else 1)
