#!/usr/bin/env python3
"""run_benign — apply each semantics-preserving edit in benign/*.diff to /repo, run the property's check, undo.
A benign edit must never produce exit 1 (VIOLATION); exit 2 (undecided) is tolerated but reported."""
import os, subprocess, sys, json
ROOT = os.path.dirname(os.path.dirname(os.path.abspath(__file__)))
rows = []
bad = 0
for f in sorted(os.listdir(os.path.join(ROOT, 'benign'))):
    if not f.endswith('.diff') or (sys.argv[1:] and f[:-5] not in sys.argv[1:]):
        continue
    pids = f.split('-')[0].split('+')
    assert subprocess.run(['git', '-C', '/repo', 'status', '--porcelain', '--untracked-files=no'], capture_output=True, text=True).stdout.strip() == ''
    a = subprocess.run(['git', '-C', '/repo', 'apply', os.path.join(ROOT, 'benign', f)], capture_output=True, text=True)
    if a.returncode != 0:
        rows.append((f, 'does not apply')); continue
    try:
        for pid in pids:
            p = subprocess.run([os.path.join(ROOT, 'check'), pid], cwd=ROOT, capture_output=True, text=True)
            v = [l for l in p.stdout.split('\n') if l.startswith('failed obligation')]
            rows.append((f, f'{pid}: exit {p.returncode}' + (' FALSE ALARM ' + '; '.join(v[:3]) if p.returncode == 1 else '') + (' (' + p.stderr.strip().split('\n')[-1][:160] + ')' if p.returncode == 2 else '')))
            bad += p.returncode == 1
    finally:
        subprocess.run(['git', '-C', '/repo', 'checkout', '--', '.'])
# the evidence files were rewritten by runs on a CHANGED tree: restore them from the unchanged tree
for _pid in sorted({'C04', 'C05', 'C07', 'C19'}):
    subprocess.run([os.path.join(ROOT, 'check'), _pid], cwd=ROOT, capture_output=True, text=True)
for r in rows:
    print(r[0], '->', r[1])
json.dump(rows, open(os.path.join(ROOT, 'benign', 'last_result.json'), 'w'), indent=1)
sys.exit(1 if bad else 0)
