"""rsx — a small Rust-aware source scanner used to copy items out of /repo verbatim.

It tokenises Rust source (skipping comments, string/char literals, lifetimes correctly),
finds items by *kind and name* (never by line number), and exposes the anchor offsets the
assembler needs (signature end, body braces, loops in source order, tail expression).
It never re-prints code: every output is a slice of the original bytes plus listed edits.
"""
from __future__ import annotations
import re
from dataclasses import dataclass, field


class LostAnchor(Exception):
    """An item / loop / pattern named by a unit template is not where it was expected."""


@dataclass
class Tok:
    kind: str   # ident | punct | lit | lifetime | comment
    text: str
    start: int
    end: int


_IDENT_START = re.compile(r'[A-Za-z_\u0080-￿]')
_IDENT = re.compile(r'[A-Za-z_\u0080-￿][A-Za-z0-9_\u0080-￿]*')
_NUM = re.compile(r'[0-9][0-9A-Za-z_]*(\.[0-9][0-9A-Za-z_]*)?([eE][+-]?[0-9_]+)?[A-Za-z0-9_]*')
_PUNCT3 = ('<<=', '>>=', '...', '..=')
_PUNCT2 = ('::', '->', '=>', '==', '!=', '<=', '>=', '&&', '||', '+=', '-=', '*=', '/=', '%=',
           '^=', '&=', '|=', '<<', '>>', '..')


def tokenize(src: str, keep_comments: bool = False) -> list[Tok]:
    toks: list[Tok] = []
    i, n = 0, len(src)
    while i < n:
        c = src[i]
        if c.isspace():
            i += 1
            continue
        if src.startswith('//', i):
            j = src.find('\n', i)
            j = n if j < 0 else j
            if keep_comments:
                toks.append(Tok('comment', src[i:j], i, j))
            i = j
            continue
        if src.startswith('/*', i):
            depth, j = 1, i + 2
            while j < n and depth:
                if src.startswith('/*', j):
                    depth += 1; j += 2
                elif src.startswith('*/', j):
                    depth -= 1; j += 2
                else:
                    j += 1
            if keep_comments:
                toks.append(Tok('comment', src[i:j], i, j))
            i = j
            continue
        # raw strings / byte strings / raw identifiers
        m = re.match(r'(b?r)(#*)"', src[i:i + 40])
        if m and (i == 0 or not (src[i - 1].isalnum() or src[i - 1] == '_')):
            hashes = m.group(2)
            close = '"' + hashes
            j = src.find(close, i + len(m.group(0)))
            if j < 0:
                raise LostAnchor('unterminated raw string')
            j += len(close)
            toks.append(Tok('lit', src[i:j], i, j)); i = j
            continue
        if c == '"' or (c == 'b' and i + 1 < n and src[i + 1] == '"'):
            j = i + (2 if c == 'b' else 1)
            while j < n and src[j] != '"':
                j += 2 if src[j] == '\\' else 1
            j += 1
            toks.append(Tok('lit', src[i:j], i, j)); i = j
            continue
        if c == "'" or (c == 'b' and i + 1 < n and src[i + 1] == "'"):
            k = i + (1 if c == 'b' else 0)
            # char literal: '\..' or 'x' followed by '
            if k + 1 < n and src[k + 1] == '\\':
                j = k + 2
                while j < n and src[j] != "'":
                    j += 1
                j += 1
                toks.append(Tok('lit', src[i:j], i, j)); i = j
                continue
            if k + 2 < n and src[k + 2] == "'":
                j = k + 3
                toks.append(Tok('lit', src[i:j], i, j)); i = j
                continue
            if c == "'":
                m2 = _IDENT.match(src, i + 1)
                if m2:
                    toks.append(Tok('lifetime', src[i:m2.end()], i, m2.end())); i = m2.end()
                    continue
        if _IDENT_START.match(c):
            m2 = _IDENT.match(src, i)
            toks.append(Tok('ident', m2.group(0), i, m2.end())); i = m2.end()
            continue
        if c.isdigit():
            m2 = _NUM.match(src, i)
            j = m2.end()
            # `1..2` must not swallow the range dots: _NUM needs a digit after '.', fine.
            toks.append(Tok('lit', src[i:j], i, j)); i = j
            continue
        for p in _PUNCT3:
            if src.startswith(p, i):
                toks.append(Tok('punct', p, i, i + 3)); i += 3
                break
        else:
            for p in _PUNCT2:
                if src.startswith(p, i):
                    toks.append(Tok('punct', p, i, i + 2)); i += 2
                    break
            else:
                toks.append(Tok('punct', c, i, i + 1)); i += 1
    return toks


_OPEN = {'(': ')', '[': ']', '{': '}'}
_CLOSE = {')', ']', '}'}


def match_close(toks: list[Tok], i: int) -> int:
    """index of the token closing the bracket opened at toks[i]."""
    assert toks[i].text in _OPEN
    depth = 0
    for j in range(i, len(toks)):
        t = toks[j]
        if t.kind != 'punct':
            continue
        if t.text in _OPEN:
            depth += 1
        elif t.text in _CLOSE:
            depth -= 1
            if depth == 0:
                return j
    raise LostAnchor('unbalanced bracket')


def match_open(toks: list[Tok], i: int) -> int:
    assert toks[i].text in _CLOSE
    depth = 0
    for j in range(i, -1, -1):
        t = toks[j]
        if t.kind != 'punct':
            continue
        if t.text in _CLOSE:
            depth += 1
        elif t.text in _OPEN:
            depth -= 1
            if depth == 0:
                return j
    raise LostAnchor('unbalanced bracket')


@dataclass
class Loop:
    kw: str            # while | loop | for
    kw_tok: int
    open_tok: int      # token index of the body '{'
    close_tok: int     # token index of the body '}'


@dataclass
class Item:
    file: str
    kind: str
    name: str
    src: str                   # whole file text
    toks: list[Tok]            # tokens of whole file
    first_tok: int             # first token of the item proper (after attributes/docs)
    attrs: list                # source text of each outer attribute (doc comments excluded)
    start: int                 # byte offset of the item proper
    end: int                   # byte offset one past the item
    kw_tok: int                # the `fn` / `enum` / ... keyword token
    name_tok: int
    open_tok: int | None = None    # body '{'
    close_tok: int | None = None   # body '}'
    loops: list[Loop] = field(default_factory=list)

    @property
    def text(self) -> str:
        return self.src[self.start:self.end]

    def line_of(self, off: int) -> int:
        return self.src.count('\n', 0, off) + 1


_ITEM_KW = {'fn', 'enum', 'struct', 'const', 'static', 'impl', 'mod', 'trait', 'type', 'use', 'macro_rules'}
_QUALS = {'pub', 'const', 'async', 'unsafe', 'extern', 'default', 'crate', 'super', 'in', 'self'}


def _block_items(src: str, toks: list[Tok], lo: int, hi: int):
    """Yield (first_tok, kw_tok, end_tok_exclusive) for each item between token indices [lo, hi)."""
    i = lo
    while i < hi:
        first = i
        # attributes
        while i < hi and toks[i].text == '#':
            j = i + 1
            if toks[j].text == '!':
                j += 1
            if toks[j].text != '[':
                break
            i = match_close(toks, j) + 1
        proper = i
        # qualifiers
        while i < hi and ((toks[i].kind == 'ident' and toks[i].text in _QUALS and toks[i].text != 'const')
                          or toks[i].kind == 'lit'  # extern "C"
                          or (toks[i].text == 'const' and i + 1 < hi and toks[i + 1].text in ('fn', 'unsafe', 'async', 'extern'))
                          or (toks[i].text == '(' and i > 0 and toks[i - 1].text == 'pub')):
            if toks[i].text == '(':
                i = match_close(toks, i) + 1
            else:
                i += 1
        if i >= hi:
            break
        kw = i
        if toks[kw].kind != 'ident' or toks[kw].text not in _ITEM_KW:
            # macro invocation at item level, e.g. `foo! { .. }` or `foo!(..);`
            j = kw
            while j < hi and toks[j].text not in ('{', ';', '('):
                j += 1
            if j < hi and toks[j].text in ('{', '('):
                j = match_close(toks, j)
                if j + 1 < hi and toks[j + 1].text == ';':
                    j += 1
            i = j + 1
            continue
        # find end: first '{' or ';' at paren depth 0
        j = kw + 1
        depth = 0
        end = None
        while j < hi:
            t = toks[j]
            if t.kind == 'punct':
                if t.text in ('(', '['):
                    j = match_close(toks, j)
                elif t.text == '{':
                    end = match_close(toks, j)
                    # `struct X {..}` / `fn` / `impl`: item ends at '}' ; tuple struct ends with ';'
                    break
                elif t.text == ';':
                    end = j
                    break
            j += 1
        if end is None:
            raise LostAnchor('item without end')
        yield (first, proper, kw, end + 1)
        i = end + 1


def _impl_header(src: str, toks: list[Tok], kw: int) -> str:
    """normalised text between `impl` and its '{' (generic params dropped), e.g. 'Iterator for PyRange'."""
    j = kw + 1
    # skip generics <...>
    if toks[j].text == '<':
        depth = 0
        while True:
            if toks[j].text == '<':
                depth += 1
            elif toks[j].text == '>':
                depth -= 1
                if depth == 0:
                    j += 1
                    break
            elif toks[j].text == '>>':
                depth -= 2
                if depth <= 0:
                    j += 1
                    break
            j += 1
    parts = []
    while toks[j].text != '{' and not (toks[j].kind == 'ident' and toks[j].text == 'where'):
        parts.append(toks[j].text)
        j += 1
    s = ' '.join(parts)
    s = re.sub(r'\s*::\s*', '::', s)
    s = re.sub(r'\s*<\s*', '<', s)
    s = re.sub(r'\s*>\s*', '> ', s).strip()
    s = re.sub(r'>\s+for', '> for', s)
    s = re.sub(r'\s*,\s*', ', ', s)
    return s.strip()


def find_item(file: str, src: str, kind: str, name: str, in_impl: str | None = None,
              in_mod: str | None = None, nth: int | None = None) -> Item:
    toks = tokenize(src)
    lo, hi = 0, len(toks)
    # descend into mod path
    if in_mod:
        for seg in in_mod.split('::'):
            found = None
            for first, proper, kw, end in _block_items(src, toks, lo, hi):
                if toks[kw].text == 'mod' and toks[kw + 1].text == seg and toks[end - 1].text == '}':
                    found = (kw, end)
            if not found:
                raise LostAnchor(f'{file}: mod {seg} not found')
            kw, end = found
            j = kw
            while toks[j].text != '{':
                j += 1
            lo, hi = j + 1, end - 1
    if in_impl:
        cands = []
        for first, proper, kw, end in _block_items(src, toks, lo, hi):
            if toks[kw].text == 'impl' and _impl_header(src, toks, kw) == in_impl:
                cands.append((kw, end))
        if not cands:
            raise LostAnchor(f'{file}: impl {in_impl} not found')
        matches = []
        for kw, end in cands:
            j = kw
            while toks[j].text != '{':
                j += 1
            for it in _block_items(src, toks, j + 1, end - 1):
                if toks[it[2]].text == kind and toks[it[2] + 1].text == name:
                    matches.append(it)
    else:
        matches = [it for it in _block_items(src, toks, lo, hi)
                   if toks[it[2]].text == kind and (
                       (kind == 'impl' and _impl_header(src, toks, it[2]) == name) or
                       (kind != 'impl' and toks[it[2] + 1].text == name))]
    if nth is not None:
        if nth >= len(matches):
            raise LostAnchor(f'{file}: {kind} {name} #{nth} not found ({len(matches)} candidates)')
        matches = [matches[nth]]
    if len(matches) != 1:
        raise LostAnchor(f'{file}: expected exactly one `{kind} {name}`'
                         f'{" in impl " + in_impl if in_impl else ""}{" in mod " + in_mod if in_mod else ""}, found {len(matches)}')
    first, proper, kw, end = matches[0]
    attrs = []
    j = first
    while j < proper:
        k = j + 1
        if toks[k].text == '!':
            k += 1
        e = match_close(toks, k)
        attrs.append(src[toks[j].start:toks[e].end])
        j = e + 1
    it = Item(file=file, kind=kind, name=name, src=src, toks=toks, first_tok=proper, attrs=attrs,
              start=toks[proper].start, end=toks[end - 1].end, kw_tok=kw, name_tok=kw + 1)
    if toks[end - 1].text == '}':
        it.close_tok = end - 1
        it.open_tok = match_open(toks, end - 1)
    if kind == 'fn' and it.open_tok is not None:
        it.loops = find_loops(toks, it.open_tok, it.close_tok)
    return it


def find_loops(toks: list[Tok], open_tok: int, close_tok: int) -> list[Loop]:
    loops = []
    j = open_tok + 1
    while j < close_tok:
        t = toks[j]
        if t.kind == 'ident' and t.text in ('while', 'loop', 'for'):
            if t.text == 'for' and toks[j + 1].text == '<':
                j += 1
                continue
            # find body '{' at bracket depth 0
            k = j + 1
            while k < close_tok:
                if toks[k].text in ('(', '['):
                    k = match_close(toks, k)
                elif toks[k].text == '{':
                    break
                k += 1
            if k >= close_tok:
                raise LostAnchor('loop without body')
            loops.append(Loop(t.text, j, k, match_close(toks, k)))
        j += 1
    return loops


def tail_offset(it: Item) -> int:
    """byte offset where the tail expression of the fn body starts (after the last depth-1 ';')."""
    toks = it.toks
    last = it.open_tok
    j = it.open_tok + 1
    while j < it.close_tok:
        t = toks[j]
        if t.kind == 'punct' and t.text in _OPEN:
            j = match_close(toks, j)
        elif t.text == ';':
            last = j
        j += 1
    nxt = last + 1
    if nxt >= it.close_tok:
        raise LostAnchor(f'{it.name}: no tail expression')
    # skip block-like statements that need no ';' (if/while/loop/for/match/unsafe/bare blocks)
    while True:
        t = toks[nxt]
        if not (t.text in ('if', 'while', 'loop', 'for', 'match', 'unsafe', '{') and t.kind in ('ident', 'punct')):
            break
        k = nxt
        while True:
            while toks[k].text != '{':
                if toks[k].text in ('(', '['):
                    k = match_close(toks, k)
                k += 1
            k = match_close(toks, k)
            if toks[k + 1].text == 'else':
                k += 2
                continue
            break
        if k + 1 >= it.close_tok or toks[k + 1].text in ('.', '?') or toks[k + 1].text in _STOP_RIGHT:
            break
        nxt = k + 1
    return toks[nxt].start


@dataclass
class Edit:
    start: int
    end: int
    text: str
    tag: str = ''


def apply_edits(src: str, lo: int, hi: int, edits: list[Edit]):
    """Apply non-overlapping edits to src[lo:hi]. Returns (text, origin_lines) where origin_lines[i] is the
    1-based source line in the original file for output line i (inserted lines map to the line of the edit)."""
    edits = sorted(edits, key=lambda e: (e.start, e.end))
    out = []
    origins = []   # per output char chunk: (text, origin_line or None, inserted?)
    pos = lo
    for e in edits:
        if e.start < pos:
            raise LostAnchor(f'overlapping edits at {e.start} ({e.tag})')
        if e.start > hi or e.end > hi:
            raise LostAnchor(f'edit outside item ({e.tag})')
        out.append((src[pos:e.start], pos, False))
        out.append((e.text, e.start, True))
        pos = e.end
    out.append((src[pos:hi], pos, False))
    text = ''.join(t for t, _, _ in out)
    # line origins
    line_origin = []
    cur_line_origin = None
    for t, off, inserted in out:
        base_line = src.count('\n', 0, off) + 1
        k = 0
        for ch in t:
            if cur_line_origin is None:
                cur_line_origin = base_line + (0 if inserted else k)
            if ch == '\n':
                line_origin.append(cur_line_origin)
                cur_line_origin = None
                if not inserted:
                    k += 1
        # chunk end without newline: keep cur_line_origin
    line_origin.append(cur_line_origin if cur_line_origin is not None else src.count('\n', 0, hi) + 1)
    return text, line_origin


# ---------------------------------------------------------------------------------------------
# expression-extent helpers for the listed rewrites

_STOP_LEFT = {'=', ';', '{', '}', ',', '+', '-', '==', '!=', '<', '>', '<=', '>=', '&&', '||', '=>', 'return',
              '+=', '-=', '*=', '/=', '%=', '|', '&', '^', '<<', '>>', '..', '..=', 'let', 'in', '!'}
_STOP_RIGHT = {';', ',', '+', '-', '*', '/', '%', '==', '!=', '<', '>', '<=', '>=', '&&', '||', '=>', '{', '}',
               '|', '&', '^', '<<', '>>', '..', '..=', '?'}


def operand_left(toks: list[Tok], op: int, lo: int, multiplicative_chain: bool = True) -> int:
    """token index where the left operand of the binary operator at toks[op] starts."""
    j = op - 1
    while j > lo:
        t = toks[j]
        if t.kind == 'punct' and t.text == '}':
            return j + 1      # a block ends a statement: the operand starts after it
        if t.kind == 'punct' and t.text in _CLOSE:
            j = match_open(toks, j) - 1
            continue
        if t.kind == 'punct' and t.text in _OPEN:
            return j + 1
        if t.text in _STOP_LEFT:
            # unary minus directly after a stop token belongs to the operand
            return j + 1
        j -= 1
    return j + 1


def operand_right(toks: list[Tok], op: int, hi: int) -> int:
    """token index one past the right operand of the binary operator at toks[op]."""
    j = op + 1
    # leading unary operators
    while toks[j].text in ('-', '!', '*', '&'):
        j += 1
    while j < hi:
        t = toks[j]
        if t.kind == 'punct' and t.text in _OPEN:
            j = match_close(toks, j) + 1
            continue
        if t.kind == 'punct' and t.text in _CLOSE:
            return j
        if t.text in _STOP_RIGHT:
            return j
        j += 1
    return j


def postfix_chain_start(toks: list[Tok], dot: int, lo: int) -> int:
    """start token of the receiver expression of the method call whose '.' is toks[dot]."""
    j = dot - 1
    while j > lo:
        t = toks[j]
        if t.kind == 'punct' and t.text in _CLOSE:
            j = match_open(toks, j)
            # call parens / index brackets are preceded by their callee
            j -= 1
            continue
        if t.kind in ('ident', 'lit'):
            p = toks[j - 1]
            if p.text in ('.', '::'):
                j -= 2
                continue
            return j
        return j + 1
    return j + 1


def list_items(src: str, kinds=('struct', 'enum', 'type')):
    """(kind, name) of every top-level item of the given kinds, in source order."""
    toks = tokenize(src)
    out = []
    for first, proper, kw, end in _block_items(src, toks, 0, len(toks)):
        if toks[kw].text in kinds:
            out.append((toks[kw].text, toks[kw + 1].text))
    return out
