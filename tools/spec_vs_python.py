#!/usr/bin/env python3
"""spec_vs_python — sanity check of the specification itself: the executable transcriptions of the spec functions
(replay/src/oracles.rs, the same definitions as specs/py_divmod.rs and specs/py_seq.rs) are compared with what the
installed CPython computes for // % s[i] s[a:b:c] and range on random and extreme operands. A disagreement means a
top-level postcondition was written wrongly (it says nothing about /repo)."""
import json, os, random, subprocess, sys
ROOT = os.path.dirname(os.path.dirname(os.path.abspath(__file__)))
EXE = os.path.join(ROOT, '.build', 'replay-target', 'release', 'verif_replay')
rnd = random.Random(int(os.environ.get('VERIF_SEED', '0')))
MIN, MAX = -2**63, 2**63 - 1
GRID = [MIN, MIN + 1, -2**62, -7, -3, -2, -1, 0, 1, 2, 3, 7, 2**62, MAX - 1, MAX]
def ri():
    c = rnd.random()
    return rnd.choice(GRID) if c < .4 else rnd.randint(-10, 10) if c < .8 else rnd.randint(MIN, MAX)
def ro():
    return None if rnd.random() < .25 else ri()
STRS = ['', 'a', 'abc', 'héllo', '日本語', 'a😀b', '¿Qué?', 'abcdefgh']
def batch(oracle, cases):
    p = subprocess.run([EXE, 'batch', oracle], input='\n'.join(json.dumps(c) for c in cases), capture_output=True, text=True)
    return [json.loads(l) for l in p.stdout.strip().split('\n') if l.strip()]
bad = 0
N = int(sys.argv[1]) if len(sys.argv) > 1 else 5000
# --- integer // and %
cases = [{'a': ri(), 'b': ri()} for _ in range(N)]
cases = [c for c in cases if c['b'] != 0 and not (c['a'] == MIN and c['b'] == -1)]
for orc, f in (('stdlib::py_mod_i64', lambda a, b: a % b), ('stdlib::py_floor_div_i64', lambda a, b: a // b)):
    for c, v in zip(cases, batch(orc, cases)):
        if v['expected'].get('returned') != f(c['a'], c['b']):
            bad += 1; print('SPEC != PYTHON', orc, c, v['expected'], f(c['a'], c['b']))
# --- s[i], s[a:b:c]
cases = [{'s': rnd.choice(STRS), 'i': ri()} for _ in range(N)]
for c, v in zip(cases, batch('core::str_char_at', cases)):
    try: exp = {'returned': {'Ok': c['s'][c['i']]}}
    except IndexError: exp = {'returned': {'Err': 'IndexOutOfRange'}}
    if v['expected'] != exp:
        bad += 1; print('SPEC != PYTHON str_char_at', c, v['expected'], exp)
cases = [{'s': rnd.choice(STRS), 'start': ro(), 'end': ro(), 'step': ro()} for _ in range(N)]
for c, v in zip(cases, batch('core::str_slice', cases)):
    if c['step'] == 0: exp = {'returned': {'Err': 'SliceStepZero'}}
    else: exp = {'returned': {'Ok': c['s'][c['start']:c['end']:c['step']]}}
    if v['expected'] != exp:
        bad += 1; print('SPEC != PYTHON str_slice', c, v['expected'], exp)
cases = [{'list': [k * 10 + 1 for k in range(rnd.randint(0, 5))], 'start': ro(), 'end': ro(), 'step': ro()} for _ in range(N)]
for c, v in zip(cases, batch('stdlib::list_slice', cases)):
    if c['step'] == 0: continue
    exp = c['list'][c['start']:c['end']:c['step']]
    if v['expected'].get('returned') != exp:
        bad += 1; print('SPEC != PYTHON list_slice', c, v['expected'], exp)
cases = [{'list': [k * 10 + 1 for k in range(rnd.randint(0, 5))], 'i': ri()} for _ in range(N)]
for c, v in zip(cases, batch('stdlib::list_get', cases)):
    try: exp = {'returned': c['list'][c['i']]}
    except IndexError: exp = None
    if (exp is None) != ('panicked' in v['expected']) or (exp and v['expected'] != exp):
        bad += 1; print('SPEC != PYTHON list_get', c, v['expected'], exp)
# --- range
cases = [{'a': ri(), 'b': ri(), 'c': ri()} for _ in range(N)]
cases = [c for c in cases if c['c'] != 0]
for c, v in zip(cases, batch('stdlib::range', cases)):
    r = range(c['a'], c['b'], c['c'])
    import itertools
    exp = list(itertools.islice(iter(r), 66))
    # len(range) overflows ssize_t for huge ranges: count = number of elements, computed from the last element
    n = 0 if not exp else (r[-1] - r[0]) // c['c'] + 1
    if v['expected'].get('first_items') != exp or int(v['expected']['total_len']) != n:
        bad += 1; print('SPEC != PYTHON range', c, v['expected'], exp[:5], n)
print(f'spec vs CPython {sys.version.split()[0]}: {bad} disagreement(s) over {N} cases per operation')
sys.exit(1 if bad else 0)
