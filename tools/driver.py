"""driver — runs every unit / harness of one property and turns the results into a verdict + evidence."""
from __future__ import annotations
import json, os, re, sys, time, hashlib, subprocess
from concurrent.futures import ThreadPoolExecutor
import config, verus_run
try:
    import kani_run
except ImportError:      # pragma: no cover
    kani_run = None
try:
    import replay as replay_mod
except ImportError:      # pragma: no cover
    replay_mod = None

TRUST_PAT = re.compile(r'\b(assume_specification|external_body|external_fn_specification|external_type_specification|admit\s*\(|assume\s*\(|axiom\b|uninterp\b|kani::assume|kani::stub|accept_recursive_types|exec_allows_no_decreases_clause|external\b)')


def eprint(*a):
    print(*a, file=sys.stderr, flush=True)


def load_known(root):
    p = os.path.join(root, 'known_findings.json')
    if not os.path.exists(p):
        return []
    return json.load(open(p)).get('findings', [])


def scan_trusted(res) -> list:
    out = []
    if res.assembled is None:
        return out
    lines = res.assembled.text.split('\n')
    for n, ln in enumerate(lines):
        s = ln.strip()
        if s.startswith('//'):
            continue
        m = TRUST_PAT.search(ln)
        if not m:
            continue
        # describe with the next signature-ish line
        desc = s
        if s.startswith('#['):
            for k in range(n + 1, min(n + 6, len(lines))):
                if lines[k].strip() and not lines[k].strip().startswith('#[') and not lines[k].strip().startswith('//'):
                    desc = s + ' ' + lines[k].strip()
                    break
        org = res.assembled.origins[n]
        out.append(f'{res.unit}: {desc[:200]}  [{org[0]}:{org[1]}]')
    return out


def own_function(name: str, unit: str) -> bool:
    return name.startswith(unit + '::') or '::' not in name


def short(name: str, unit: str) -> str:
    return name[len(unit) + 2:] if name.startswith(unit + '::') else name


class Failure:
    def __init__(self, pid, unit, mode, function, kind, origin, rendered, labels=None):
        self.pid, self.unit, self.mode, self.function, self.kind = pid, unit, mode, function, kind
        self.origin, self.rendered, self.labels = origin, rendered, labels or []

    @property
    def obligation(self):
        loc = f'@{self.origin[0]}:{self.origin[1]}' if self.origin else ''
        mode = '/' + self.mode if self.mode else ''
        return f'{self.unit}{mode}/{self.function}/{self.kind}{loc}'


def kind_of(message: str) -> str:
    m = message.lower()
    if 'postcondition' in m: return 'ensures'
    if 'precondition' in m: return 'requires-of-callee'
    if 'overflow' in m or 'underflow' in m: return 'overflow'
    if 'invariant' in m and 'before' in m: return 'invariant-init'
    if 'invariant' in m: return 'invariant'
    if 'decreases' in m or 'termination' in m: return 'decreases'
    if 'division by zero' in m: return 'div-by-zero'
    if 'assertion' in m: return 'assert'
    if 'index' in m: return 'index'
    return re.sub(r'[^a-z]+', '-', m)[:40]


def main(argv, root):
    tier = os.environ.get('VERIF_TIER', 'quick')
    pid = None
    replay_file = None
    i = 0
    while i < len(argv):
        a = argv[i]
        if a == '--tier':
            tier = argv[i + 1]; i += 2
        elif a == '--replay':
            replay_file = argv[i + 1]; i += 2
        elif a.startswith('-'):
            eprint(f'unknown option {a}'); return 2
        else:
            pid = a; i += 1
    if replay_file:
        if replay_mod is None:
            eprint('replay driver missing'); return 2
        return replay_mod.rerun(replay_file, root)
    if pid not in config.PROPS:
        eprint(f'property {pid} is not claimed by this machinery (see MANIFEST.json not_applicable)')
        return 2
    if tier not in ('quick', 'thorough'):
        eprint('tier must be quick or thorough'); return 2
    try:
        seed = int(os.environ.get('VERIF_SEED', '0'))
    except ValueError:
        seed = 0
    return run_property(pid, tier, seed, root)


def run_property(pid, tier, seed, root):
    t0 = time.time()
    cfg = config.PROPS[pid]
    build = os.path.join(root, '.build', pid)
    os.makedirs(build, exist_ok=True)
    replay_dir = os.path.join(root, '.build', 'replays')
    os.makedirs(replay_dir, exist_ok=True)
    for f in os.listdir(replay_dir):
        if f.startswith(pid + '_'):
            os.remove(os.path.join(replay_dir, f))
    known = [k for k in load_known(root) if k['property'] == pid]
    known_open = [k for k in known if k.get('status') == 'known']
    known_defines = sorted({k['define'] for k in known_open if k.get('define')})

    jobs = []
    for u in cfg['verus_units']:
        for mode in u['modes']:
            defs = list(mode) + known_defines
            jobs.append(('verify', u, tuple(defs)))
            if u.get('canary', True):
                jobs.append(('canary', u, tuple(defs + ['CANARY'])))
    os.environ['VERIF_TIER_EFFECTIVE'] = tier
    seeds = [None] if tier == 'quick' else [None, seed + 1, seed + 2]

    def do(job):
        kind, u, defs = job[0], job[1], job[2]
        sd = job[3] if len(job) > 3 else None
        return job, verus_run.run_unit(os.path.join(root, u['template']), build, defs, seed=sd,
                                       threads=4, timeout=u.get('timeout', 900),
                                       tag_suffix=(f'_seed{sd}' if sd is not None else ''))
    alljobs = list(jobs)
    if tier == 'thorough':
        for j in jobs:
            if j[0] == 'verify':
                for sd in seeds[1:]:
                    alljobs.append((j[0], j[1], j[2], sd))
    kani_results = []
    with ThreadPoolExecutor(max_workers=6) as ex:
        futs = [ex.submit(do, j) for j in alljobs]
        sfut = None
        if cfg.get('spec_vs_python') or cfg.get('spec_conformance_c19'):
            import spec_conformance
            sfut = ex.submit(spec_conformance.main_c19 if cfg.get('spec_conformance_c19') else spec_conformance.main,
                             os.path.join(build, 'spec_conf'), seed)
        kfut = None
        if kani_run is not None and cfg.get('kani'):
            kfut = ex.submit(kani_run.run_all, pid, cfg['kani'], tier, root, build)
        results = [f.result() for f in futs]
        if kfut is not None:
            kani_results = kfut.result()
        spec_conf = None
        if sfut is not None:
            try:
                spec_conf = sfut.result()
            except Exception as e:
                spec_conf = {'ok': False, 'error': repr(e)}

    failures: list[Failure] = []
    undecided: list[str] = []
    unsound: list[str] = []
    if spec_conf is not None and not spec_conf.get('ok'):
        unsound.append('spec functions disagree with ground instances computed by CPython (specs/*.rs are wrong, not /repo): ' + str(spec_conf.get('error'))[:600])
    obligations = discharged = 0
    samples = []
    fn_table = []
    trusted = []
    rewrites = []
    canaries_refuted = 0
    solver_ms = 0.0
    unit_rows = []
    cmds = []
    spec_fns_counted = set()
    spec_fns_pending = set()
    for job, res in results:
        spec_fns_counted |= spec_fns_pending
        spec_fns_pending = set()
        kind, u, defs = job[0], job[1], job[2]
        sd = job[3] if len(job) > 3 else None
        mode = '+'.join(d for d in defs if d not in ('CANARY',) and not d.startswith('KNOWN_'))
        solver_ms += res.smt_ms
        unit_rows.append({'unit': res.unit, 'defines': list(defs), 'role': kind, 'seed': sd, 'verified': res.verified,
                          'errors': res.errors, 'wall_s': round(res.wall_s, 2), 'tool_error': res.tool_error})
        if res.tool_error and not (kind == 'canary' and res.assembled is not None and res.functions):
            undecided.append(f'{res.unit}[{",".join(defs)}] {kind}: {res.tool_error}')
            if res.raw_stderr:
                eprint(res.raw_stderr[-3000:])
            continue
        if kind == 'canary':
            # every canary function must be refuted; every other function must still verify
            canary_items = [(it.emitted_name, it.flags.get('mod_path', '')) for it in res.assembled.items
                            if it.ident.endswith('__canary') or it.flags.get('canary_self')]
            canary_names = {n for n, _ in canary_items}
            for m in re.finditer(r'\bfn\s+([A-Za-z0-9_]+__canary)\b', res.assembled.text):
                if m.group(1) not in canary_names:
                    canary_items.append((m.group(1), None)); canary_names.add(m.group(1))
            seen = set()
            for cname, mpath in canary_items:
                cands = [n for n in res.functions if n.split('::')[-1] == cname]
                if len(cands) > 1 and mpath is not None:
                    want = '::'.join(x for x in [res.unit, mpath, cname] if x)
                    exact = [n for n in cands if n == want]
                    cands = exact or ([n for n in cands if n.endswith('::' + mpath + '::' + cname)] if mpath else
                                      sorted(cands, key=lambda n: n.count('::'))[:1])
                for name in cands:
                    seen.add(cname)
                    if res.functions[name]['success']:
                        unsound.append(f'{res.unit}[{",".join(defs)}]: canary {name} was PROVED — contradictory precondition, '
                                       f'over-strong stub or inconsistent axiom')
                    else:
                        canaries_refuted += 1
            missing = canary_names - seen
            if missing:
                unsound.append(f'{res.unit}: canaries produced no verification record: {sorted(missing)}')
            if not canary_names:
                unsound.append(f'{res.unit}: canary run without canaries')
            continue
        # ---- ordinary verification run
        if sd is None:
            cmds.append(f'(cd {os.path.dirname(res.path)} && {res.cmd})')
            trusted.extend(scan_trusted(res))
            rewrites.extend(res.assembled.rewrites)
            for it in res.assembled.items:
                if it.kind == 'fn':
                    fn_table.append({'function': it.ident, 'file': it.file, 'line': it.src_line, 'unit': res.unit,
                                     'mode': mode or 'ok', 'back_end': 'verus/z3', 'text': 'extracted verbatim from /repo',
                                     'under_contract': it.has_contract, 'loops': it.n_loops,
                                     'counted': it.flags.get('count') != 'no'})
        if not res.functions:
            undecided.append(f'{res.unit}: no function results'); continue
        failed = {short(n, res.unit) for n in res.failed_functions()}
        nocount_q = {'::'.join(x for x in [it.flags.get('mod_path', ''), it.emitted_name] if x) for it in res.assembled.items if it.flags.get('count') == 'no'}
        nocount = set()
        # lemmas of shared spec files are verified in every unit that includes them but counted once
        for n_ln, ln in enumerate(res.assembled.text.split('\n')):
            org = res.assembled.origins[n_ln] if n_ln < len(res.assembled.origins) else None
            if org and org[0].startswith('T:specs/'):
                mm = re.search(r'\bfn\s+([A-Za-z0-9_]+)', ln)
                if mm and not ln.lstrip().startswith('//'):
                    key = (org[0], mm.group(1))
                    if key in spec_fns_counted:
                        nocount.add(mm.group(1))
                    elif sd is None:
                        spec_fns_pending.add(key)
        if sd is None:
            for name, obs in res.obligations.items():
                if not own_function(name, res.unit):
                    continue
                sn = short(name, res.unit)
                if (sn in nocount_q or sn.split('::')[-1] in nocount) and sn not in failed:
                    continue   # re-verified shared callee: counted in the unit that owns it
                obligations += len(obs)
                if sn not in failed:
                    discharged += len(obs)
                for k, lab in enumerate(obs[:3]):
                    if len(samples) < 40:
                        samples.append(f'{res.unit}{"/" + mode if mode else ""}/{sn}/{kind_of(lab)}#{k}')
        for d in res.diags:
            if not d.refuted:
                continue
            f = Failure(pid, res.unit, mode, d.function or '?', kind_of(d.message), d.origin, d.rendered, d.labels)
            if sd is not None:
                # a proof that only fails under another SMT seed is brittleness of the proof, not of the code
                undecided.append(f'{f.obligation}: refuted only under smt.random_seed={sd} (unstable proof)')
            else:
                failures.append(f)
        if failed and not any(d.refuted for d in res.diags):
            undecided.append(f'{res.unit}: functions failed without a refuted-obligation diagnostic: {sorted(failed)}')

    # ---- Kani
    kani_checks = kani_ok = 0
    bounded = []
    kani_rows = []
    for kr in kani_results:
        kani_rows.append(kr.row())
        solver_ms += kr.solver_s * 1000
        if kr.tool_error:
            undecided.append(f'kani {kr.harness}: {kr.tool_error}')
            continue
        if kr.bounded:
            bounded.append({'harness': kr.harness, 'bound': kr.bound, 'result': kr.status, 'checks': kr.n_checks})
        else:
            kani_checks += kr.n_checks
            kani_ok += kr.n_checks - kr.n_failed
        if kr.vacuous:
            unsound.append(f'kani {kr.harness}: cover!(true) unreachable — harness is vacuous')
        for ff in kr.failures:
            failures.append(Failure(pid, 'kani:' + kr.harness, 'bounded' if kr.bounded else '', kr.function, ff['kind'],
                                    ff.get('origin'), ff.get('text', ''), [('cex', kr.cex)]))
        if kr.trusted:
            trusted.extend(kr.trusted)
        rewrites.extend(getattr(kr, 'rewrites', []))
        if kr.cmd:
            cmds.append(kr.cmd)
        for s in kr.samples[:2]:
            if len(samples) < 60:
                samples.append(s)
        if not kr.bounded:
            for fnrow in kr.functions:
                fn_table.append(fnrow)
    obligations += kani_checks
    discharged += kani_ok

    # ---- verdict
    viol_lines = []
    known_lines = []
    n_viol = 0
    replay_records = []
    if replay_mod is not None:
        # known findings: replay the witness on the real code every run
        for k in known_open:
            ok, text = replay_mod.replay_known(k, root)
            if ok is None:
                undecided.append(f'known finding {k["id"]}: replay failed to run: {text}')
            elif ok:
                known_lines.append(f'KNOWN-FINDING: property={pid} {k["what"]} [{text}]')
            else:
                eprint(f'note: known finding {k["id"]} no longer reproduces ({text}); its entry in known_findings.json is stale')
    # ---- message-text pins: one concrete execution per documented message on the real code
    pins_ok = 0
    pin_bad = []
    if replay_mod is not None and cfg.get('pins'):
        pins_ok, pin_bad = replay_mod.run_pins(pid, cfg['pins'], root)
        for b in pin_bad:
            if b.get('error'):
                undecided.append(f'pin {b["oracle"]}: {b["error"]}')
            else:
                f = Failure(pid, 'pins', '', b['oracle'], 'documented-text-or-value', None,
                            f"concrete execution on the real code: {json.dumps(b)[:600]}", [('cex', {'oracle': b['oracle'], 'args': b.get('args')})])
                failures.append(f)
    # ---- bounded stand-ins for functions outside the verifier's reach (labelled bounded, never counted)
    if replay_mod is not None and cfg.get('bounded_standins'):
        for row in replay_mod.run_bounded(pid, cfg['bounded_standins'], root):
            if row.get('error'):
                undecided.append(f'bounded stand-in {row["oracle"]}: {row["error"]}')
                continue
            bounded.append({'harness': 'native:' + row['oracle'], 'bound': row['bound'], 'result': row['result'], 'checks': row['cases'], 'function': row['function']})
            if row.get('counterexample'):
                failures.append(Failure(pid, 'bounded-stand-in', 'bounded', row['function'], row['oracle'].split('::')[-1], None,
                                        'bounded stand-in (not a proof): ' + json.dumps(row['counterexample'])[:700], [('cex', row['counterexample'])]))
    if failures:
        # group by obligation
        seen = {}
        for f in failures:
            seen.setdefault(f.obligation, f)
        for n, (oid, f) in enumerate(sorted(seen.items())):
            rp = os.path.join(replay_dir, f'{pid}_{hashlib.sha1(oid.encode()).hexdigest()[:10]}.json')
            rec = {'property': pid, 'obligation': oid, 'unit': f.unit, 'function': f.function, 'kind': f.kind,
                   'repo_location': f'{f.origin[0]}:{f.origin[1]}' if f.origin else None,
                   'verifier_output': f.rendered, 'labels': [[l, list(o) if o else None] for l, o in f.labels if isinstance(l, str) or l is None],
                   'tier': tier}
            found = None
            if replay_mod is not None:
                try:
                    found = replay_mod.find_counterexample(pid, f, root, build, tier)
                except Exception as e:   # the search is best effort; the verdict does not depend on it
                    rec['counterexample_search_error'] = repr(e)
            if found:
                rec.update(found)
                line = f'VIOLATION property={pid} replay={rp}'
            else:
                rec['counterexample'] = None
                rec['note'] = ('the verifier refuted this obligation (it is discharged on the unchanged tree) but no '
                               'concrete failing input was obtained; the obligation and the verifier output are above')
                line = f'VIOLATION property={pid} replay={rp} no-failing-input-found'
            rec['rerun'] = f'./check --replay {rp}'
            json.dump(rec, open(rp, 'w'), indent=1)
            viol_lines.append((line, oid))
            replay_records.append(rec)
        n_viol = len(viol_lines)

    # ---- thorough tier: sensitivity self-test of the contracts (edits on an in-memory overlay, never on /repo)
    sens = None
    if tier == 'thorough' and not viol_lines and not undecided and not unsound:
        import sensitivity
        units = []
        for u in cfg['verus_units']:
            for mode in u['modes']:
                units.append((os.path.join(root, u['template']), tuple(list(mode) + known_defines)))
        sens, fatal = sensitivity.run(pid, units, root, build, seed)
        for sid in fatal:
            undecided.append(f'sensitivity: curated edit {sid} was NOT rejected — the contract is weaker than designed')
        for sid in sens['curated']['stale']:
            eprint(f'note: curated sensitivity edit is stale (source changed): {sid}')

    # ---- thorough tier: exploration sweep of the real code against the executable spec transcriptions
    # (independent of extraction and of the verifiers; a hit is a concrete failing input = violation)
    sweep = None
    if tier == 'thorough' and not viol_lines and replay_mod is not None:
        try:
            sweep = replay_mod.standin_search(pid, root, tier)
        except Exception as e:
            sweep = {'error': repr(e)}
        if sweep and sweep.get('counterexample'):
            oid = f'{pid}/exploration-sweep/{sweep["counterexample"]["oracle"]}'
            rp = os.path.join(replay_dir, f'{pid}_{hashlib.sha1(oid.encode()).hexdigest()[:10]}.json')
            rec = {'property': pid, 'obligation': oid, 'decided_by': 'exploration sweep of the real code (thorough tier); not a proof', 'tier': tier,
                   'rerun': f'./check --replay {rp}'}
            rec.update(sweep)
            json.dump(rec, open(rp, 'w'), indent=1)
            viol_lines.append((f'VIOLATION property={pid} replay={rp}', oid))
            n_viol = len(viol_lines)

    # ---- thorough tier: the specification itself against the reference implementation (CPython)
    spec_sanity = None
    if tier == 'thorough' and cfg.get('spec_vs_python'):
        pr = subprocess.run([sys.executable, os.path.join(root, 'tools', 'spec_vs_python.py'), '5000'], capture_output=True, text=True,
                            env=dict(os.environ, VERIF_SEED=str(seed)))
        spec_sanity = pr.stdout.strip().split('\n')[-1] if pr.stdout.strip() else pr.stderr[-300:]
        if pr.returncode != 0:
            unsound.append('the executable transcription of the specification disagrees with CPython: ' + pr.stdout[-500:])

    # ---- stand-in when the deductive route is undecided (unsupported construct, lost anchor, timeout):
    # search the real code for a concrete failing input. A hit is a violation (it replays on the real
    # code); a miss leaves the run undecided (exit 2). Never counted as proved.
    standin = None
    if undecided and not viol_lines and replay_mod is not None:
        try:
            standin = replay_mod.standin_search(pid, root, tier)
        except Exception as e:
            standin = {'error': repr(e)}
        if standin and standin.get('counterexample'):
            oid = f'{pid}/undecided-by-verifier/native-search-stand-in/{standin["counterexample"]["oracle"]}'
            rp = os.path.join(replay_dir, f'{pid}_{hashlib.sha1(oid.encode()).hexdigest()[:10]}.json')
            rec = {'property': pid, 'obligation': oid, 'decided_by': 'bounded stand-in: native search on the real code (NOT a proof); '
                   'the deductive route was undecided for the reasons listed', 'undecided': undecided, 'tier': tier,
                   'rerun': f'./check --replay {rp}'}
            rec.update(standin)
            json.dump(rec, open(rp, 'w'), indent=1)
            viol_lines.append((f'VIOLATION property={pid} replay={rp}', oid))
            n_viol = len(viol_lines)

    wall = time.time() - t0
    assumptions = list(cfg.get('assumptions', [])) + list(config.GLOBAL_ASSUMPTIONS)
    ev = {
        'property_id': pid, 'tier': tier, 'seed': seed, 'level': 'proof',
        'coverage': {
            'obligations': obligations, 'discharged': discharged,
            'checker_cmd': ' ; '.join(cmds) if cmds else 'none',
            'trusted_base': sorted(set(trusted)),
            'functions_under_contract': fn_table,
            'by_backend': {'verus/z3': {'obligations': obligations - kani_checks, 'discharged': discharged - kani_ok},
                           'kani/cbmc': {'obligations': kani_checks, 'discharged': kani_ok}},
            'solver_time_s': round(solver_ms / 1000.0, 2),
            'units': unit_rows, 'kani_harnesses': kani_rows,
            'canaries_refuted': canaries_refuted,
            'extraction_rewrites': sorted(set(rewrites)),
            'bounded_checks': bounded,
            'known_findings_replayed': known_lines,
            'message_pins': {'executed': len(cfg.get('pins', [])), 'ok': pins_ok, 'note': 'concrete executions on the real crates, one per documented message; not counted in obligations'},
            'not_covered': cfg.get('not_covered', []),
            'samples': samples,
            'failed_obligations': [oid for _, oid in viol_lines],
            'undecided': undecided, 'unsound': unsound, 'standin_search': standin, 'sensitivity_self_test': sens, 'spec_vs_cpython': spec_sanity, 'spec_conformance': spec_conf, 'exploration_sweep': ({k: v for k, v in sweep.items() if k != 'counterexample'} if sweep else None),
            'explanation': ('obligations = proof obligations (AIR assert terms) generated by Verus for the functions of each unit '
                            'assembled from /repo on this run, plus the property checks of complete (loop-free, full-domain) Kani '
                            'harnesses on the real crates; bounded Kani harnesses are listed under bounded_checks and are not counted'),
        },
        'assumptions': assumptions,
        'wall_s': round(wall, 2), 'violations': n_viol,
    }
    os.makedirs(os.path.join(root, 'evidence'), exist_ok=True)
    json.dump(ev, open(os.path.join(root, 'evidence', f'{pid}.json'), 'w'), indent=1)

    for l in known_lines:
        print(l)
    if viol_lines:
        for l, oid in viol_lines:
            print(f'failed obligation: {oid}')
            print(l)
        for u in undecided:
            eprint('undecided:', u)
        return 1
    if unsound:
        for u in unsound:
            eprint('MACHINERY UNSOUND:', u)
        return 2
    if undecided:
        for u in undecided:
            eprint('undecided:', u)
        return 2
    if obligations == 0 or obligations != discharged:
        eprint(f'obligation accounting problem: {discharged}/{obligations}')
        return 2
    print(f'{pid}: {discharged}/{obligations} obligations discharged, {canaries_refuted} canaries refuted, '
          f'{len(bounded)} bounded cross-checks, {wall:.1f}s')
    return 0
