"""assemble — turn a unit template (units/*.rs.in) into one single-file Verus (or Kani) crate.

Template directives (a line whose first non-blank characters are `//@`):

  //@include <path relative to the including file>
  //@ifdef NAME | //@ifndef NAME | //@else | //@endif
  //@item kind=fn file=<path under /repo> name=<ident> [in_impl="Trait for T"] [in_mod=a::b] [nth=k]
  //@      [ret=<name>] [loops=<n>] [twin=no] [as=<new name>] [rewrites=R2,R3,...] [id=<label>]
  //@      [strip_derive=Debug,Hash] [add_derive=Structural] [drop_derive=all] [vis=pub]
  //@contract            text inserted between the signature and the body '{'
  //@prelude             text inserted as first statement(s) of the body
  //@loop k              text inserted between loop k's header and its '{'  (invariant/decreases)
  //@loop_body k         text inserted as first statement(s) of loop k's body
  //@before_loop k       text inserted immediately before loop k
  //@after_loop k        text inserted immediately after loop k
  //@tail                text inserted immediately before the tail expression of the body
  //@subst A B           token-level substitution inside the item (A, B whitespace-free token strings)
  //@end

Everything between `//@item` and `//@end` that is not a directive belongs to the section opened last.
The item's source bytes are copied from /repo at assembly time; nothing in the template restates code.
"""
from __future__ import annotations
import os, re, shlex
from dataclasses import dataclass, field
import rsx
from rsx import Edit, LostAnchor

REPO = os.environ.get('VERIF_REPO', '/repo')
VERIF_ROOT = os.path.dirname(os.path.dirname(os.path.abspath(__file__)))
# sensitivity self-test only: {relative path: text} consulted before /repo (never written anywhere)
import threading
_TL = threading.local()


def set_overlay(overlay: dict | None):
    _TL.overlay = dict(overlay or {})


def set_inline(table: dict | None):
    """R17: {helper name: repo file}. Calls to these free functions inside extracted items are replaced by a block
    that binds the arguments and contains the helper's body (only for bodies without `return` / `?`)."""
    _TL.inline = dict(table or {})


def _split_args(toks, open_i, close_i, src):
    args, depth, start = [], 0, open_i + 1
    if close_i == open_i + 1:
        return args
    for j in range(open_i + 1, close_i):
        t = toks[j].text
        if t in ('(', '[', '{'):
            depth += 1
        elif t in (')', ']', '}'):
            depth -= 1
        elif t == ',' and depth == 0:
            args.append(src[toks[start].start:toks[j - 1].end]); start = j + 1
    if start < close_i:
        args.append(src[toks[start].start:toks[close_i - 1].end])
    return args


def _helper_parts(name, relfile):
    src = read_repo(relfile)
    it = rsx.find_item(relfile, src, 'fn', name)
    toks = it.toks
    if any(t.kind == 'ident' and t.text == 'return' for t in toks[it.open_tok:it.close_tok]) or \
            any(t.text == '?' for t in toks[it.open_tok:it.close_tok]):
        raise LostAnchor(f'{relfile}: helper `{name}` has an early return; it cannot be inlined (R17)')
    pj = it.name_tok + 1
    while toks[pj].text != '(':
        if toks[pj].text == '<':
            raise LostAnchor(f'{relfile}: helper `{name}` is generic; not inlined (R17)')
        pj += 1
    pend = rsx.match_close(toks, pj)
    params = []
    for a in _split_args(toks, pj, pend, src):
        m = re.match(r'\s*(mut\s+)?([A-Za-z_][A-Za-z0-9_]*)\s*:\s*(.*)$', a, re.S)
        if not m:
            raise LostAnchor(f'{relfile}: helper `{name}`: parameter pattern `{a}` not supported (R17)')
        params.append((('mut ' if m.group(1) else '') + m.group(2), m.group(3).strip()))
    body = src[toks[it.open_tok].end:toks[it.close_tok].start]
    return params, body, it.line_of(it.start)


def inline_calls_in_text(text, table, applied, depth=0):
    """replace calls `name(args)` of table's helpers inside a piece of source text (used for helper bodies / arguments)"""
    if depth > 4:
        raise LostAnchor('helper inlining nested too deeply (R17)')
    toks = rsx.tokenize(text)
    out, pos = [], 0
    j = 0
    while j < len(toks):
        t = toks[j]
        if (t.kind == 'ident' and t.text in table and j + 1 < len(toks) and toks[j + 1].text == '('
                and (j == 0 or toks[j - 1].text not in ('.', '::', 'fn'))):
            c = rsx.match_close(toks, j + 1)
            args = [inline_calls_in_text(a, table, applied, depth + 1) for a in _split_args(toks, j + 1, c, text)]
            out.append(text[pos:t.start]); out.append(_inlined_block(t.text, args, table, applied, depth))
            pos = toks[c].end
            j = c + 1
        else:
            j += 1
    out.append(text[pos:])
    return ''.join(out)


def _inlined_block(name, args, table, applied, depth):
    params, body, line = _helper_parts(name, table[name])
    if len(params) != len(args):
        raise LostAnchor(f'helper `{name}`: {len(args)} arguments for {len(params)} parameters (R17)')
    body = inline_calls_in_text(body, table, applied, depth + 1)
    tmp = ''.join(f'let __a{depth}_{k}: {params[k][1]} = {a}; ' for k, a in enumerate(args))
    binds = ''.join(f'let {params[k][0]} = __a{depth}_{k}; ' for k in range(len(args)))
    applied.append(f'R17 {table[name]}:{line}: call of helper `{name}` replaced by a block binding its arguments around its body')
    return '{ ' + tmp + '{ ' + binds + body + ' } }'


def read_repo(relfile: str) -> str:
    ov = getattr(_TL, 'overlay', None)
    if ov and relfile in ov:
        return ov[relfile]
    with open(os.path.join(REPO, relfile)) as f:
        return f.read()

DROP_ATTRS = ('inline', 'cold', 'track_caller', 'default', 'allow', 'must_use', 'doc', 'cfg_attr')


@dataclass
class ItemInfo:
    ident: str               # label used in reports
    kind: str
    file: str                # path relative to /repo
    name: str
    emitted_name: str
    src_line: int            # line of the item in /repo
    out_line: int            # first line in the assembled file
    out_end_line: int
    has_contract: bool
    twin_name: str | None
    rewrites: list
    n_loops: int
    in_impl: str | None = None
    flags: dict = field(default_factory=dict)


@dataclass
class Assembled:
    text: str
    origins: list            # per output line: (file, line) ; file is a /repo-relative path or 'T:<template>'
    items: list
    rewrites: list           # human-readable list of every rewrite applied
    template: str


class TemplateError(Exception):
    pass


def _read_template(path: str, defines: set, seen=None):
    """yield (text_line, (template_path, lineno)) after include / ifdef processing."""
    seen = seen or []
    if path in seen:
        raise TemplateError(f'include cycle at {path}')
    out = []
    stack = []   # list of booleans: currently active?
    with open(path) as f:
        lines = f.read().split('\n')
    if lines and lines[-1] == '':
        lines.pop()
    for n, line in enumerate(lines, 1):
        s = line.strip()
        if s.startswith('//@ifdef ') or s.startswith('//@ifndef '):
            name = s.split()[1]
            cond = (name in defines) == s.startswith('//@ifdef ')
            stack.append(cond)
            continue
        if s == '//@else':
            stack[-1] = not stack[-1]
            continue
        if s == '//@endif':
            stack.pop()
            continue
        if not all(stack):
            continue
        if s.startswith('//@include '):
            inc = os.path.normpath(os.path.join(os.path.dirname(path), s.split(None, 1)[1].strip()))
            out.extend(_read_template(inc, defines, seen + [path]))
            continue
        out.append((line, (path, n)))
    if stack:
        raise TemplateError(f'{path}: unterminated //@ifdef')
    return out


def _parse_kv(s: str) -> dict:
    d = {}
    for part in shlex.split(s):
        if '=' not in part:
            raise TemplateError(f'bad item attribute {part!r}')
        k, v = part.split('=', 1)
        d[k] = v
    return d


def _derive_edit(attr: str, strip: list, add: list, drop_all: bool):
    m = re.match(r'#\[derive\((.*)\)\]$', attr.strip(), re.S)
    if not m:
        return None
    traits = [t.strip() for t in m.group(1).split(',') if t.strip()]
    if drop_all:
        traits = []
    kept = [t for t in traits if t not in strip]
    kept += [a for a in add if a not in kept]
    removed = [t for t in traits if t not in kept]
    return ('#[derive(' + ', '.join(kept) + ')]' if kept else ''), removed


def _tok_range(it: rsx.Item):
    """token index range of the item body (or the whole item)"""
    lo = it.first_tok
    hi = it.close_tok if it.close_tok is not None else it.first_tok
    # find last token index whose end <= it.end
    j = lo
    while j + 1 < len(it.toks) and it.toks[j + 1].end <= it.end:
        j += 1
    return lo, j


def build_matchexpr(spec: dict, sections: dict, log: list, twin: bool = False):
    """kind=matchexpr: the nth `match SCRUTINEE { ARMS }` expression inside function `fn=` whose first arm starts with
    `first=` is extracted and wrapped as `pub fn <as>(<param>) -> (r: <rtype>) <contract> { match <param name> { ARMS } }`.
    The arms are the repository's bytes; only the scrutinee expression is replaced by the parameter."""
    relfile = spec['file']
    src = read_repo(relfile)
    it = rsx.find_item(relfile, src, 'fn', spec['fn'], in_impl=spec.get('in_impl'), in_mod=spec.get('in_mod'))
    toks = it.toks
    first = [t.text for t in rsx.tokenize(spec['first'])]
    hits = []
    for j in range(it.open_tok + 1, it.close_tok):
        if toks[j].kind == 'ident' and toks[j].text == 'match':
            k = j + 1
            while k < it.close_tok and toks[k].text != '{':
                if toks[k].text in ('(', '['):
                    k = rsx.match_close(toks, k)
                k += 1
            if k < it.close_tok and [t.text for t in toks[k + 1:k + 1 + len(first)]] == first:
                hits.append((j, k, rsx.match_close(toks, k)))
    nth = int(spec.get('nth', 0))
    if nth >= len(hits):
        raise LostAnchor(f"{relfile}: fn {spec['fn']}: match expression #{nth} starting with `{spec['first']}` not found ({len(hits)} found)")
    if 'count' in spec and int(spec['count']) != len(hits):
        raise LostAnchor(f"{relfile}: fn {spec['fn']}: expected {spec['count']} match expressions starting with `{spec['first']}`, found {len(hits)}")
    j, k, c = hits[nth]
    scrut = src[toks[j + 1].start:toks[k - 1].end]
    pname = spec['param'].split(':')[0].strip()
    arms = src[toks[k].start:toks[c].end]
    name = spec['as'] + ('__canary' if twin else '')
    contract = sections.get(('contract',), '')
    if twin:
        contract = re.sub(r'\bensures\b', 'ensures false,', contract, count=1) if re.search(r'\bensures\b', contract) else contract.rstrip() + '\n    ensures false,\n'
    head = f"pub fn {name}({spec['param']}) -> (r: {spec['rtype']})\n{contract.rstrip()}\n{{\n    match {pname} "
    text = head + arms + '\n}\n'
    line0 = it.line_of(toks[j].start)
    n_head = head.count('\n')
    origins = [(relfile, line0)] * n_head + [(relfile, line0 + i) for i in range(arms.count('\n') + 1)] + [(relfile, it.line_of(toks[c].end))] * 2
    applied = [f"matchexpr {relfile}:{line0}: `match {scrut} {{..}}` inside fn {spec['fn']} wrapped as fn {spec['as']}({spec['param']}) (scrutinee `{scrut}` -> `{pname}`)"]
    if not twin:
        log.extend(applied)
    info = ItemInfo(ident=spec.get('id', spec['as']) + ('__canary' if twin else ''), kind='fn', file=relfile, name=spec['as'], emitted_name=name,
                    src_line=line0, out_line=0, out_end_line=0, has_contract=bool(contract.strip()), twin_name=None, rewrites=applied, n_loops=0,
                    in_impl=None, flags=dict(spec))
    return text, origins, info


def build_matcharm(spec: dict, sections: dict, log: list, twin: bool = False, substs=()):
    """kind=matcharm: the block of the match arm whose pattern starts with `first=` inside function `fn=` is extracted
    and wrapped as `pub fn <as>(<params>) <contract> BLOCK`. The block is the repository's bytes, with the listed rewrites
    (R15, and `//@replace_let NAME EXPR` = R18: the initializer of `let NAME = ..;` replaced by an assumed-contract call;
    the original initializer must contain the text given by expect_init=)."""
    relfile = spec['file']
    src = read_repo(relfile)
    it = rsx.find_item(relfile, src, 'fn', spec['fn'], in_impl=spec.get('in_impl'), in_mod=spec.get('in_mod'))
    toks = it.toks
    def find_arm(text, lo, hi, nth=1):
        first = [t.text for t in rsx.tokenize(text)]
        exact = first[-1] == '=>'           # `PATTERN =>`: the whole pattern is given (e.g. `_ =>`)
        if exact:
            first = first[:-1]
        for j in range(lo + 1, hi - len(first)):
            if [t.text for t in toks[j:j + len(first)]] == first and toks[j - 1].text in ('{', '}', ','):
                k = j + len(first)
                if exact and toks[k].text != '=>':
                    continue
                while k < hi and toks[k].text != '=>':
                    if toks[k].text in ('(', '[', '{'):
                        k = rsx.match_close(toks, k)
                    k += 1
                if k < hi and toks[k + 1].text == '{':
                    nth -= 1
                    if nth == 0:
                        return (j, k + 1, rsx.match_close(toks, k + 1))
        return None
    lo, hi = it.open_tok, it.close_tok
    if spec.get('within'):
        # the arm is looked for inside the block of an enclosing arm
        outer = find_arm(spec['within'], lo, hi)
        if outer is None:
            raise LostAnchor(f"{relfile}: fn {spec['fn']}: enclosing match arm starting with `{spec['within']}` not found")
        lo, hi = outer[1], outer[2]
    hit = find_arm(spec['first'], lo, hi, int(spec.get('nth', '1')))   # nth=N: the N-th arm with that pattern
    if hit is None:
        raise LostAnchor(f"{relfile}: fn {spec['fn']}: match arm starting with `{spec['first']}` with a block body not found")
    j, o, c = hit
    edits, applied = [], []
    # R18: replace the initializer of a named let
    for name, expr in sections.get(('replace_let',), []):
        done = False
        for q in range(o + 1, c):
            if toks[q].text == 'let' and toks[q + 1].text == name and toks[q + 2].text == '=':
                e = q + 3
                while toks[e].text != ';':
                    if toks[e].text in ('(', '[', '{'):
                        e = rsx.match_close(toks, e)
                    e += 1
                init = src[toks[q + 3].start:toks[e - 1].end]
                want = spec.get('expect_init')
                if want and ''.join(want.split()) not in ''.join(init.split()):
                    raise LostAnchor(f"{relfile}:{it.line_of(toks[q].start)}: initializer of `{name}` no longer contains `{want}`")
                edits.append(Edit(toks[q + 3].start, toks[e - 1].end, expr, 'R18'))
                applied.append(f"R18 {relfile}:{it.line_of(toks[q].start)}: initializer of `let {name}` ({init.count(chr(10)) + 1} lines: `{' '.join(init.split())[:80]}..`) -> `{expr}` (assumed-contract accessor)")
                done = True
                break
        if not done:
            raise LostAnchor(f"{relfile}: `let {name} = ..;` not found in the arm `{spec['first']}`")
    if ('prelude',) in sections:
        edits.append(Edit(toks[o].end, toks[o].end, '\n' + sections[('prelude',)].rstrip() + '\n', 'prelude'))
    rewrites = [r for r in spec.get('rewrites', '').split(',') if r]
    if 'R15' in rewrites:
        _rewrite_r15(it, edits, applied, relfile, o, c)
    if 'R19' in rewrites:
        _rewrite_r19(it, edits, applied, relfile, o, c)
    if 'R12' in rewrites:
        _rewrite_r12(it, rewrites, edits, applied, relfile, o, c)
    # R17: on-demand inlining of return-free helper functions of the same file (as for kind=fn items)
    inl = getattr(_TL, 'inline', None)
    if inl:
        q = o
        while q < c:
            t = toks[q]
            if (t.kind == 'ident' and t.text in inl and toks[q + 1].text == '(' and toks[q - 1].text not in ('.', '::', 'fn')):
                cc = rsx.match_close(toks, q + 1)
                args = [inline_calls_in_text(a, inl, applied) for a in _split_args(toks, q + 1, cc, src)]
                edits.append(Edit(t.start, toks[cc].end, _inlined_block(t.text, args, inl, applied, 0), 'R17'))
                q = cc + 1
            else:
                q += 1
    for a, b in substs:
        pat = [t.text for t in rsx.tokenize(a)]
        q = o
        while q <= c - len(pat) + 1:
            if [t.text for t in toks[q:q + len(pat)]] == pat and not any(e.start <= toks[q].start < e.end for e in edits):
                edits.append(Edit(toks[q].start, toks[q + len(pat) - 1].end, b, 'subst'))
                applied.append(f'subst {relfile}:{it.line_of(toks[q].start)}: `{a}` -> `{b}`')
                q += len(pat)
            else:
                q += 1
    edits = [e for e in edits if not any(f is not e and f.start <= e.start and e.end <= f.end and (f.end - f.start) > (e.end - e.start) for f in edits)]
    body, borg = rsx.apply_edits(src, toks[o].start, toks[c].end, edits)
    name = spec['as'] + ('__canary' if twin else '')
    contract = sections.get(('contract',), '')
    if twin:
        contract = re.sub(r'\bensures\b', 'ensures false,', contract, count=1) if re.search(r'\bensures\b', contract) else contract.rstrip() + '\n    ensures false,\n'
    rty = f" -> ({spec.get('ret', 'r')}: {spec['rtype']})" if spec.get('rtype') else ''
    head = f"pub fn {name}({spec['params']}){rty}\n{contract.rstrip()}\n"
    line0 = it.line_of(toks[j].start)
    if spec.get('wrap_some') == 'yes':
        # same for an enclosing function that returns Option and an arm that leaves through `return None` / `?`
        text = head + '{ let __v = ' + body + ';\n  Some(__v) }\n'
        applied.append(f"matcharm {relfile}:{line0}: arm value wrapped as `{{ let __v = BLOCK; Some(__v) }}` (the arm contains `return None`)")
    elif spec.get('wrap_ok') == 'yes':
        # the arm's block is an expression of the enclosing function's Ok type and may leave through `?`:
        # `{ let __v = BLOCK; Ok(__v) }` gives the wrapper the enclosing function's Result type
        text = head + '{ let __v = ' + body + ';\n  Ok(__v) }\n'
        applied.append(f"matcharm {relfile}:{line0}: arm value wrapped as `{{ let __v = BLOCK; Ok(__v) }}` (the arm contains `?`)")
    else:
        text = head + body + '\n'
    origins = [(relfile, line0)] * head.count('\n') + [(relfile, x) for x in borg] + [(relfile, borg[-1])] * 2
    applied.insert(0, f"matcharm {relfile}:{line0}: block of the arm `{spec['first']} .. =>` inside fn {spec['fn']} wrapped as fn {spec['as']}({spec['params']})")
    if not twin:
        log.extend(applied)
    info = ItemInfo(ident=spec.get('id', spec['as']) + ('__canary' if twin else ''), kind='fn', file=relfile, name=spec['as'], emitted_name=name,
                    src_line=line0, out_line=0, out_end_line=0, has_contract=bool(contract.strip()), twin_name=None, rewrites=applied, n_loops=0,
                    in_impl=None, flags=dict(spec))
    return text, origins, info


def build_item(spec: dict, sections: dict, substs: list, defines: set, log: list, twin: bool = False):
    if spec.get('kind') == 'matchexpr':
        return build_matchexpr(spec, sections, log, twin)
    if spec.get('kind') == 'matcharm':
        return build_matcharm(spec, sections, log, twin, substs)
    relfile = spec['file']
    try:
        src = read_repo(relfile)
    except OSError as e:
        raise LostAnchor(f'{relfile}: {e}')
    kind = spec.get('kind', 'fn')
    it = rsx.find_item(relfile, src, kind, spec['name'], in_impl=spec.get('in_impl'), in_mod=spec.get('in_mod'),
                       nth=int(spec['nth']) if 'nth' in spec else None)
    toks = it.toks
    edits: list[Edit] = []
    applied = []
    label = spec.get('id', spec['name'])
    where = f"{relfile}:{it.line_of(it.start)} {kind} {spec['name']}"

    # ---- attributes (R1)
    head = ''
    strip = [x for x in spec.get('strip_derive', 'Debug,Hash,Default').split(',') if x]
    add = [x for x in spec.get('add_derive', '').split(',') if x]
    for a in it.attrs:
        nm = re.match(r'#\[\s*([A-Za-z_:]+)', a)
        nm = nm.group(1) if nm else ''
        if nm == 'derive':
            new, removed = _derive_edit(a, strip, add, spec.get('drop_derive') == 'all')
            if removed or add:
                applied.append(f'R1 {where}: derive {a} -> {new or "(none)"}')
            if new:
                head += new + '\n'
        elif nm in DROP_ATTRS:
            applied.append(f'R1 {where}: attribute {a} dropped')
        else:
            head += a + '\n'
    vis = spec.get('vis')
    if vis and toks[it.first_tok].text != 'pub':
        head += vis + ' '
        applied.append(f'R7 {where}: visibility -> {vis}')

    # R7: restricted visibility `pub(super)` / `pub(crate)` -> `pub` (single-file crate)
    if toks[it.first_tok].text == 'pub' and toks[it.first_tok + 1].text == '(':
        c = rsx.match_close(toks, it.first_tok + 1)
        edits.append(Edit(toks[it.first_tok].start, toks[c].end, 'pub', 'R7'))
        applied.append(f'R7 {where}: {src[toks[it.first_tok].start:toks[c].end]} -> pub')
    # R7: private fields of a struct -> pub (pub_fields=yes): the single-file crate's specs name them
    if kind == 'struct' and spec.get('pub_fields') == 'yes' and it.open_tok is not None and toks[it.open_tok].text == '{':
        j = it.open_tok + 1
        while j < it.close_tok:
            t = toks[j]
            if t.text in ('(', '[', '{', '<'):
                if t.text == '<':
                    depth = 0
                    while j < it.close_tok:
                        if toks[j].text == '<': depth += 1
                        elif toks[j].text == '>': depth -= 1
                        elif toks[j].text == '>>': depth -= 2
                        if depth <= 0: break
                        j += 1
                else:
                    j = rsx.match_close(toks, j)
            elif t.kind == 'ident' and toks[j + 1].text == ':' and toks[j - 1].text in ('{', ',', ']') :
                edits.append(Edit(t.start, t.start, 'pub ', 'R7'))
                applied.append(f'R7 {where}: field `{t.text}` -> pub')
            j += 1
    # R1: `#[default]` on an enum variant goes with the stripped `Default` derive
    if kind == 'enum' and it.open_tok is not None:
        for j in range(it.open_tok, it.close_tok):
            if toks[j].text == '#' and toks[j + 1].text == '[' and toks[j + 2].text == 'default' and toks[j + 3].text == ']':
                edits.append(Edit(toks[j].start, toks[j + 3].end, '', 'R1'))
                applied.append(f'R1 {relfile}:{it.line_of(toks[j].start)}: variant attribute #[default] dropped')

    if kind == 'fn':
        if it.open_tok is None:
            raise LostAnchor(f'{where}: fn without body')
        if 'loops' in spec and int(spec['loops']) != len(it.loops):
            raise LostAnchor(f'{where}: template expects {spec["loops"]} loop(s), source has {len(it.loops)}')
        for key in sections:
            if key[0] in ('loop', 'loop_body', 'before_loop', 'after_loop') and key[1] >= len(it.loops):
                raise LostAnchor(f'{where}: no loop #{key[1]} (source has {len(it.loops)})')
        body_open = toks[it.open_tok]
        # ---- //@names: annotation identifiers follow the CURRENT names of parameters / let-bound locals (by ordinal),
        #      so that renaming a local or a parameter in /repo does not detach the annotations
        if ('names',) in sections:
            lets = []
            let_inits = []    # identifiers occurring in each let's initializer
            for j in range(it.open_tok + 1, it.close_tok):
                if toks[j].kind == 'ident' and toks[j].text == 'let':
                    k = j + 1
                    if toks[k].text == 'mut':
                        k += 1
                    if toks[k].kind == 'ident' and toks[k + 1].text in ('=', ':', ';'):
                        lets.append(toks[k].text)
                        e = k + 1
                        idents = set()
                        while e < it.close_tok and toks[e].text != ';':
                            if toks[e].text in ('(', '[', '{'):
                                ce = rsx.match_close(toks, e)
                                idents.update(t.text for t in toks[e:ce] if t.kind == 'ident')
                                e = ce
                            elif toks[e].kind == 'ident':
                                idents.add(toks[e].text)
                            e += 1
                        let_inits.append(idents)
            params = []
            pj = it.name_tok + 1
            while toks[pj].text != '(':
                pj += 1
            pend = rsx.match_close(toks, pj)
            depth = 0
            start_of_param = True
            for j in range(pj + 1, pend):
                t = toks[j]
                if t.text in ('(', '[', '<'):
                    depth += 1
                elif t.text in (')', ']', '>'):
                    depth -= 1
                elif t.text == ',' and depth == 0:
                    start_of_param = True
                    continue
                if start_of_param and t.kind == 'ident' and t.text not in ('mut', 'ref'):
                    if toks[j + 1].text == ':':
                        params.append(t.text)
                        start_of_param = False
                    elif t.text == 'self':
                        start_of_param = False
            ren = {'contract': {}, 'body': {}}
            for tname, ref in sections[('names',)].items():
                scope = None
                if '@' in tname:
                    tname, scope = tname.split('@')
                mi = re.match(r'init:(\w+)#(\d+)$', ref)
                if mi:
                    # the n-th `let` whose initializer mentions the given identifier
                    if tname in lets:
                        continue
                    hits = [lets[q] for q in range(len(lets)) if mi.group(1) in let_inits[q]]
                    if int(mi.group(2)) >= len(hits):
                        raise LostAnchor(f'{where}: //@names {tname}={ref}: no such binding')
                    for sc in ([scope] if scope else ['contract', 'body']):
                        ren[sc][tname] = hits[int(mi.group(2))]
                    continue
                m = re.match(r'(let|param)(\d+)$', ref)
                pool = lets if m and m.group(1) == 'let' else params
                if m and tname in pool:
                    continue      # the template's name still exists in the source: no renaming needed
                if not m or int(m.group(2)) >= len(pool):
                    raise LostAnchor(f'{where}: //@names {tname}={ref}: no such binding ({len(lets)} lets, {len(params)} params)')
                cur_name = pool[int(m.group(2))]
                if cur_name != tname:
                    for sc in ([scope] if scope else ['contract', 'body']):
                        ren[sc][tname] = cur_name
            for sc, mp in ren.items():
                if not mp:
                    continue
                pat = re.compile(r'\b(' + '|'.join(re.escape(k) for k in mp) + r')\b')
                for key in list(sections.keys()):
                    is_contract = key[0] == 'contract'
                    if key[0] in ('contract', 'prelude', 'tail', 'loop', 'loop_body', 'before_loop', 'after_loop') and (is_contract == (sc == 'contract')):
                        sections[key] = pat.sub(lambda mm: mp[mm.group(1)], sections[key])
                applied.append(f'names {where}: annotation identifiers ({sc}) renamed to the current source names: ' + ', '.join(f'{a}->{b}' for a, b in mp.items()))
        # ---- name the return value
        ret = spec.get('ret')
        # tokens of signature
        arrow = None
        j = it.name_tok + 1
        while j < it.open_tok:
            if toks[j].text in ('(', '['):
                j = rsx.match_close(toks, j)
            elif toks[j].text == '->':
                arrow = j
                break
            j += 1
        where_tok = None
        j = (arrow or it.name_tok) + 1
        while j < it.open_tok:
            if toks[j].text in ('(', '['):
                j = rsx.match_close(toks, j)
            elif toks[j].kind == 'ident' and toks[j].text == 'where':
                where_tok = j
                break
            j += 1
        sig_end_tok = where_tok if where_tok is not None else it.open_tok
        if ret and arrow is not None:
            ty_start = toks[arrow].end
            ty_end = toks[sig_end_tok - 1].end
            ty = src[ty_start:ty_end].strip()
            for a, b in substs:
                ty = _subst_text(ty, a, b)
            if ty != '!':
                edits.append(Edit(ty_start, ty_end, f' ({ret}: {ty})', 'ret'))
        # ---- rename
        new_name = spec.get('as')
        contract = sections.get(('contract',), '')
        if twin:
            new_name = (new_name or spec['name']) + '__canary'
            if re.search(r'\bensures\b', contract):
                contract = re.sub(r'\bensures\b', 'ensures false,', contract, count=1)
            else:
                contract = contract.rstrip() + '\n    ensures false,\n'
        if new_name:
            nt = toks[it.name_tok]
            edits.append(Edit(nt.start, nt.end, new_name, 'rename'))
        # ---- contract
        if contract.strip():
            edits.append(Edit(body_open.start, body_open.start, '\n' + contract.rstrip() + '\n', 'contract'))
        if ('prelude',) in sections:
            edits.append(Edit(body_open.end, body_open.end, '\n' + sections[('prelude',)].rstrip() + '\n', 'prelude'))
        r3_loops = set()
        rewrites = [r for r in spec.get('rewrites', '').split(',') if r]
        # ---- R3: for over char_indices -> loop/match
        if 'R3' in rewrites:
            for k, lp in enumerate(it.loops):
                if lp.kw != 'for':
                    continue
                # for PAT in EXPR {
                j = lp.kw_tok + 1
                in_tok = None
                while j < lp.open_tok:
                    if toks[j].text in ('(', '['):
                        j = rsx.match_close(toks, j)
                    elif toks[j].kind == 'ident' and toks[j].text == 'in':
                        in_tok = j
                        break
                    j += 1
                if in_tok is None:
                    raise LostAnchor(f'{where}: for-loop #{k} without `in`')
                pat = src[toks[lp.kw_tok + 1].start:toks[in_tok - 1].end]
                expr = src[toks[in_tok + 1].start:toks[lp.open_tok - 1].end]
                if 'char_indices' not in expr:
                    continue
                r3_loops.add(k)
                ann = sections.get(('loop', k), '')
                itv = f'__it{k}'
                pre = sections.get(('before_loop', k), '')
                lb = sections.get(('loop_body', k), '')
                # the loop-body prelude runs before `next()` so that it can name the iterator's pre-state
                headtxt = (f'let mut {itv} = {expr};\n' + (pre.rstrip() + '\n' if pre.strip() else '') + 'loop\n' + (ann.rstrip() + '\n' if ann.strip() else '') +
                           '{\n' + (lb.rstrip() + '\n' if lb.strip() else '') + f'match {itv}.next() {{ Some({pat}) => {{')
                edits.append(Edit(toks[lp.kw_tok].start, toks[lp.open_tok].end, headtxt, 'R3'))
                ct = toks[lp.close_tok]
                tailtxt = '} None => break, } }'
                al = sections.get(('after_loop', k), '')
                if al.strip():
                    tailtxt += '\n' + al.rstrip() + '\n'
                edits.append(Edit(ct.start, ct.end, tailtxt, 'R3'))
                applied.append(f'R3 {relfile}:{it.line_of(toks[lp.kw_tok].start)}: `for {pat} in {expr}` -> '
                               f'`let mut {itv} = {expr}; loop {{ match {itv}.next() {{ Some({pat}) => {{..}} None => break }} }}`')
        for k, lp in enumerate(it.loops):
            if k in r3_loops:
                continue
            if ('loop', k) in sections:
                o = toks[lp.open_tok]
                edits.append(Edit(o.start, o.start, '\n' + sections[('loop', k)].rstrip() + '\n', f'loop{k}'))
            if ('loop_body', k) in sections:
                o = toks[lp.open_tok]
                edits.append(Edit(o.end, o.end, '\n' + sections[('loop_body', k)].rstrip() + '\n', f'loop_body{k}'))
            if ('before_loop', k) in sections:
                o = toks[lp.kw_tok]
                edits.append(Edit(o.start, o.start, sections[('before_loop', k)].rstrip() + '\n', f'before_loop{k}'))
            if ('after_loop', k) in sections:
                o = toks[lp.close_tok]
                edits.append(Edit(o.end, o.end, '\n' + sections[('after_loop', k)].rstrip() + '\n', f'after_loop{k}'))
        if ('tail',) in sections:
            off = rsx.tail_offset(it)
            edits.append(Edit(off, off, sections[('tail',)].rstrip() + '\n', 'tail'))
        lo_t, hi_t = it.open_tok, it.close_tok
        _rewrite_r2_r4(it, rewrites, edits, applied, relfile, lo_t, hi_t)
        # ---- R17: on-demand inlining of return-free helper functions of the same file
        inl = getattr(_TL, 'inline', None)
        if inl:
            j = lo_t
            while j < hi_t:
                t = toks[j]
                if (t.kind == 'ident' and t.text in inl and toks[j + 1].text == '(' and toks[j - 1].text not in ('.', '::', 'fn')):
                    c = rsx.match_close(toks, j + 1)
                    args = [inline_calls_in_text(a, inl, applied) for a in _split_args(toks, j + 1, c, src)]
                    edits.append(Edit(t.start, toks[c].end, _inlined_block(t.text, args, inl, applied, 0), 'R17'))
                    j = c + 1
                else:
                    j += 1
        # ---- R16 (keep form): `//@keeparm PATTERN` lines name the arms of ONE match that stay; the body of every other arm
        # of that match is replaced by the unreachable marker (robust against arms being added or reworded)
        keep = sections.get(('keeparm',), [])
        if keep:
            kt = [[t.text for t in rsx.tokenize(k)] for k in keep]
            found_match = None
            for j in range(lo_t, hi_t):
                if toks[j].text == 'match':
                    b = j + 1
                    while toks[b].text != '{':
                        if toks[b].text in ('(', '['):
                            b = rsx.match_close(toks, b)
                        b += 1
                    arms = _match_arms(toks, b)
                    pats = [[t.text for t in toks[a[0]:a[1]]] for a in arms]
                    if all(any(p[:len(k)] == k for p in pats) for k in kt):
                        found_match = (b, arms, pats)
                        break
            if found_match is None:
                raise LostAnchor(f'{where}: no match whose arms include every //@keeparm pattern')
            b, arms, pats = found_match
            ndrop = 0
            for (ps, arrow, bs, be), p in zip(arms, pats):
                if any(p[:len(k)] == k for k in kt):
                    continue
                edits.append(Edit(toks[bs].start, toks[be].end, '{ __arm_outside_contract() }', 'R16'))
                ndrop += 1
            applied.append(f'R16 {relfile}:{it.line_of(toks[b].start)}: of the {len(arms)} arms of the match, the bodies of the {ndrop} arms other than '
                           + ', '.join(f'`{k}`' for k in keep) + ' replaced by an unreachable marker (`requires false`); the contract excludes those cases')
        # ---- R16: a match arm outside the contract's precondition is replaced by an unreachable marker
        for pat in sections.get(('droparm',), []):
            ptoks = [t.text for t in rsx.tokenize(pat)]
            hit = None
            for j in range(lo_t, hi_t - len(ptoks)):
                if [t.text for t in toks[j:j + len(ptoks)]] == ptoks and toks[j + len(ptoks)].text == '=>':
                    hit = j
                    break
            if hit is None:
                raise LostAnchor(f'{where}: match arm `{pat} =>` not found')
            b = hit + len(ptoks) + 1
            if toks[b].text == '{':
                e = rsx.match_close(toks, b)
            else:
                e = b
                while toks[e + 1].text != ',' and e + 1 < hi_t:
                    if toks[e + 1].text in ('(', '[', '{'):
                        e = rsx.match_close(toks, e + 1)
                    else:
                        e += 1
            edits.append(Edit(toks[b].start, toks[e].end, '{ __arm_outside_contract() }', 'R16'))
            applied.append(f'R16 {relfile}:{it.line_of(toks[hit].start)}: body of match arm `{pat} =>` ({it.line_of(toks[e].end) - it.line_of(toks[b].start) + 1} lines) replaced by an '
                           f'unreachable marker (`requires false`); the contract excludes that case')
        if any(k[0] == 'closure' for k in sections) and not twin:
            head = _hoist_closures(it, sections, edits, applied, relfile) + head
        elif any(k[0] == 'closure' for k in sections):
            _hoist_closures(it, sections, edits, [], relfile)
        # ---- R10: RECV.nth(ARG) -> __iter_nth(RECV, ARG)
        if 'R10' in rewrites:
            for j in range(lo_t, hi_t):
                if toks[j].text == '.' and toks[j + 1].text == 'nth' and toks[j + 2].text == '(':
                    r0 = rsx.postfix_chain_start(toks, j, lo_t)
                    recv = src[toks[r0].start:toks[j - 1].end]
                    edits.append(Edit(toks[r0].start, toks[j + 2].end, f'__iter_nth({recv}, ', 'R10'))
                    applied.append(f'R10 {relfile}:{it.line_of(toks[j].start)}: `{recv}.nth(..)` -> `__iter_nth({recv}, ..)`')
        # ---- R6: str slicing / find -> wrappers whose preconditions are std's panic conditions
        if 'R6' in rewrites:
            _rewrite_r6(it, edits, applied, relfile, lo_t, hi_t)
    else:
        lo_t, hi_t = it.first_tok, _tok_range(it)[1]
        rewrites = [r for r in spec.get('rewrites', '').split(',') if r]
        _rewrite_r2_r4(it, rewrites, edits, applied, relfile, lo_t, hi_t)
        new_name = spec.get('as')
        if new_name:
            nt = toks[it.name_tok]
            edits.append(Edit(nt.start, nt.end, new_name, 'rename'))
        if ('prelude',) in sections and it.open_tok is not None and spec.get('kind') in ('impl',):
            o = toks[it.close_tok]
            edits.append(Edit(o.start, o.start, sections[('prelude',)].rstrip() + '\n', 'impl-extra'))
    # ---- token substitutions
    for a, b in substs:
        pat = [t.text for t in rsx.tokenize(a)]
        j = it.first_tok
        last = _tok_range(it)[1]
        while j <= last - len(pat) + 1:
            if [t.text for t in toks[j:j + len(pat)]] == pat and not any(
                    e.start <= toks[j].start < e.end for e in edits):
                edits.append(Edit(toks[j].start, toks[j + len(pat) - 1].end, b, 'subst'))
                applied.append(f'subst {relfile}:{it.line_of(toks[j].start)}: `{a}` -> `{b}`')
                j += len(pat)
            else:
                j += 1
    # an edit swallowed by a larger one (e.g. R15 inside an arm dropped by R16) is discarded
    edits = [e for e in edits if not any(f is not e and f.start <= e.start and e.end <= f.end and (f.end - f.start) > (e.end - e.start)
                                         for f in edits)]
    text, origins = rsx.apply_edits(src, it.start, it.end, edits)
    if head:
        text = head + text
        n_head = head.count('\n')
        origins = [origins[0]] * n_head + origins
    info = ItemInfo(ident=label + ('__canary' if twin else ''), kind=kind, file=relfile, name=spec['name'],
                    emitted_name=(spec.get('as') or spec['name']) + ('__canary' if twin else ''),
                    src_line=it.line_of(it.start), out_line=0, out_end_line=0,
                    has_contract=bool(sections.get(('contract',), '').strip()), twin_name=None,
                    rewrites=applied, n_loops=len(it.loops), in_impl=spec.get('in_impl'), flags=dict(spec))
    if not twin:
        log.extend(applied)
    return text, [(relfile, o) for o in origins], info


def _rewrite_r12(it, rewrites, edits, applied, relfile, lo_t, hi_t):
    """R12: `quote! { TOKENS }` (no interpolation) -> `__quote("TOKENS")`: an opaque token-stream constructor
    that carries the literal token text (proc_macro2 is not available to the verifier)."""
    toks, src = it.toks, it.src
    j = lo_t
    while j < hi_t:
        if toks[j].kind == 'ident' and toks[j].text == 'quote' and toks[j + 1].text == '!' and toks[j + 2].text in ('{', '('):
            c = rsx.match_close(toks, j + 2)
            inner = [t.text for t in toks[j + 3:c]]
            if '#' in inner:
                # R12 with interpolation: `quote! { A B #x C #y }` -> `__quote_parts(&["A", "B", "C"], &[__qs(&x), __qs(&y)], &[2, 3])`:
                # the literal tokens, the spliced values, and for each spliced value the number of literal tokens before it
                # (repetitions `#( .. )*` are not supported)
                lits, subs, cuts, k = [], [], [], 0
                while k < len(inner):
                    if inner[k] == '#':
                        if k + 1 >= len(inner) or not re.match(r'[A-Za-z_][A-Za-z0-9_]*$', inner[k + 1]):
                            raise LostAnchor(f'{relfile}:{it.line_of(toks[j].start)}: quote! with a repetition or non-identifier splice cannot be rewritten by R12')
                        subs.append(inner[k + 1]); cuts.append(len(lits)); k += 2
                    else:
                        lits.append(inner[k]); k += 1
                esc = lambda t: t.replace('\\', '\\\\').replace('"', '\\"')
                call = ('__quote_parts(&[' + ', '.join(f'"{esc(t)}"' for t in lits) + '], &[' + ', '.join(f'__qs(&{t})' for t in subs)
                        + '], &[' + ', '.join(str(c) for c in cuts) + '])')
                edits.append(Edit(toks[j].start, toks[c].end, call, 'R12'))
                applied.append(f'R12 {relfile}:{it.line_of(toks[j].start)}: `quote! {{ {" ".join(inner)} }}` -> `{call}`')
                j = c + 1
                continue
            text = ' '.join(inner).replace('\\', '\\\\').replace('"', '\\"')
            edits.append(Edit(toks[j].start, toks[c].end, f'__quote("{text}")', 'R12'))
            applied.append(f'R12 {relfile}:{it.line_of(toks[j].start)}: `quote! {{ {" ".join(inner)} }}` -> `__quote("{text}")`')
            j = c + 1
        else:
            j += 1


def _match_arms(toks, open_brace):
    """arms of the match whose body opens at toks[open_brace]: list of (pattern_start, arrow, body_start, body_end) token indices"""
    close = rsx.match_close(toks, open_brace)
    arms = []
    j = open_brace + 1
    while j < close:
        ps = j
        k = j
        while toks[k].text != '=>':
            if toks[k].text in ('(', '[', '{'):
                k = rsx.match_close(toks, k)
            k += 1
        bs = k + 1
        if toks[bs].text == '{':
            be = rsx.match_close(toks, bs)
            nxt = be + 1
            if nxt < close and toks[nxt].text == ',':
                nxt += 1
        else:
            be = bs
            while be + 1 < close and toks[be + 1].text != ',':
                if toks[be + 1].text in ('(', '[', '{'):
                    be = rsx.match_close(toks, be + 1)
                else:
                    be += 1
            if toks[be].text in ('(', '[', '{') and be == bs:
                be = rsx.match_close(toks, bs)
                while be + 1 < close and toks[be + 1].text != ',':
                    if toks[be + 1].text in ('(', '[', '{'):
                        be = rsx.match_close(toks, be + 1)
                    else:
                        be += 1
            nxt = be + 2
        arms.append((ps, k, bs, be))
        j = nxt
    return arms


def _hoist_closures(it, sections, edits, applied, relfile):
    """R13: `let NAME = |PARAMS| BODY;` (named in a //@closure section) -> a separate fn NAME. Capture-free
    closures become free functions; a closure that captures only `self` (//@closure NAME RET self) becomes a
    method `fn NAME(&self, PARAMS)` and its call sites `NAME(..)` become `self.NAME(..)`. Other rewrites that fall
    inside the closure body are applied to the hoisted text."""
    toks, src = it.toks, it.src
    hoisted = ''
    names = [k[1] for k in sections if k[0] == 'closure']
    for name in names:
        found = False
        on_self = sections.get(('closure_self', name), False)
        j = it.open_tok + 1
        while j < it.close_tok:
            if (toks[j].text == 'let' and toks[j + 1].text == name and toks[j + 2].text == '=' and toks[j + 3].text == '|'):
                k = j + 4
                while toks[k].text != '|':
                    k += 1
                params = src[toks[j + 4].start:toks[k - 1].end]
                # body runs to the ';' at this nesting depth
                m = k + 1
                while toks[m].text != ';':
                    if toks[m].text in ('(', '[', '{'):
                        m = rsx.match_close(toks, m)
                    m += 1
                b0 = k + 1
                if toks[b0].text == '->':          # `|..| -> T { .. }`: the annotated type is dropped, the block is the body
                    while toks[b0].text != '{':
                        b0 += 1
                lo, hi = toks[b0].start, toks[m - 1].end
                inner = sorted([e for e in edits if lo <= e.start and e.end <= hi], key=lambda e: e.start)
                body, pos = '', lo
                for e in inner:
                    body += src[pos:e.start] + e.text
                    pos = e.end
                    edits.remove(e)
                body += src[pos:hi]
                ret = sections[('closure_ret', name)]
                contract = sections[('closure', name)].rstrip()
                recv = '&self, ' if on_self else ''
                hoisted += (f'fn {name}({recv}{params}) -> (r: {ret})\n{contract}\n{{\n    {body}\n}}\n\n')
                edits.append(Edit(toks[j].start, toks[m].end, f'/* closure `{name}` hoisted (R13) */', 'R13'))
                applied.append(f'R13 {relfile}:{it.line_of(toks[j].start)}: closure `let {name} = |{params}| ..;` '
                               f'{"capturing only self hoisted to a method" if on_self else "(capture-free) hoisted to"} `fn {name}({recv}{params}) -> {ret}`')
                if on_self:
                    for q in range(m + 1, it.close_tok):
                        if toks[q].kind == 'ident' and toks[q].text == name and toks[q + 1].text == '(' and toks[q - 1].text != '.':
                            edits.append(Edit(toks[q].start, toks[q].end, f'self.{name}', 'R13'))
                found = True
                break
            j += 1
        if not found:
            raise LostAnchor(f'{relfile}: closure `let {name} = |..| ..;` not found in {it.name}')
    return hoisted


def _rewrite_r19(it, edits, applied, relfile, lo_t, hi_t):
    """R19: `RECV.map(|x| Ok(E)).transpose()?` -> `(match RECV { Some(x) => Some(E), None => None })`.
    The definition of Option::map + Option::transpose + `?`: a `?` inside E left the closure with Err, which
    transpose and the outer `?` turned into the enclosing function's Err; in the match it does so directly
    (same error type). Verus cannot take a `&mut self`-capturing closure that uses `?`."""
    toks, src = it.toks, it.src
    j = lo_t
    while j < hi_t - 8:
        if (toks[j].text == '.' and toks[j + 1].text == 'map' and toks[j + 2].text == '(' and toks[j + 3].text == '|'
                and toks[j + 4].kind == 'ident' and toks[j + 5].text == '|' and toks[j + 6].text == 'Ok' and toks[j + 7].text == '('):
            mclose = rsx.match_close(toks, j + 2)
            okclose = rsx.match_close(toks, j + 7)
            if (okclose == mclose - 1 and toks[mclose + 1].text == '.' and toks[mclose + 2].text == 'transpose'
                    and toks[mclose + 3].text == '(' and toks[mclose + 4].text == ')' and toks[mclose + 5].text == '?'):
                r0 = rsx.postfix_chain_start(toks, j, lo_t)
                recv = ' '.join(src[toks[r0].start:toks[j - 1].end].split())
                var = toks[j + 4].text
                body = src[toks[j + 8].start:toks[okclose - 1].end]
                new = f'(match {recv} {{ Some({var}) => Some({body}), None => None }})'
                edits.append(Edit(toks[r0].start, toks[mclose + 5].end, new, 'R19'))
                applied.append(f'R19 {relfile}:{it.line_of(toks[j].start)}: `{recv}.map(|{var}| Ok({" ".join(body.split())})).transpose()?` -> `{new}`')
                j = mclose + 6
                continue
        j += 1


def _rewrite_r15(it, edits, applied, relfile, lo_t, hi_t):
    """R15: diagnostic text construction — `format!(..)` and `RECV.to_string()` -> `__format_opaque()` (an
    arbitrary String). Only the text of error messages is lost; receivers are plain places (no effects)."""
    toks, src = it.toks, it.src
    j = lo_t
    while j < hi_t:
        if toks[j].kind == 'ident' and toks[j].text == 'format' and toks[j + 1].text == '!' and toks[j + 2].text == '(':
            c = rsx.match_close(toks, j + 2)
            edits.append(Edit(toks[j].start, toks[c].end, '__format_opaque()', 'R15'))
            applied.append(f'R15 {relfile}:{it.line_of(toks[j].start)}: `format!(..)` -> `__format_opaque()`')
            j = c + 1
            continue
        if toks[j].text == '.' and toks[j + 1].text == 'to_string' and toks[j + 2].text == '(' and toks[j + 3].text == ')':
            r0 = rsx.postfix_chain_start(toks, j, lo_t)
            if not any(e.start <= toks[r0].start < e.end for e in edits):
                edits.append(Edit(toks[r0].start, toks[j + 3].end, '__format_opaque()', 'R15'))
                applied.append(f'R15 {relfile}:{it.line_of(toks[j].start)}: `{src[toks[r0].start:toks[j + 3].end]}` -> `__format_opaque()`')
            j += 4
            continue
        j += 1


def _rewrite_r2_r4(it, rewrites, edits, applied, relfile, lo_t, hi_t, r2_to='assert'):
    toks, src = it.toks, it.src
    if 'R12' in rewrites:
        _rewrite_r12(it, rewrites, edits, applied, relfile, lo_t, hi_t)
    if 'R15' in rewrites:
        _rewrite_r15(it, edits, applied, relfile, lo_t, hi_t)
    if 'R19' in rewrites:
        _rewrite_r19(it, edits, applied, relfile, lo_t, hi_t)
    if 'R2' in rewrites or 'R2K' in rewrites:
        for j in range(lo_t, hi_t):
            if toks[j].kind == 'ident' and toks[j].text == 'debug_assert' and toks[j + 1].text == '!':
                if 'R2' in rewrites:
                    edits.append(Edit(toks[j].start, toks[j + 1].end, 'assert', 'R2'))
                    applied.append(f'R2 {relfile}:{it.line_of(toks[j].start)}: debug_assert!(..) -> assert(..) (static)')
                else:
                    edits.append(Edit(toks[j].start, toks[j + 1].end, 'assert!', 'R2K'))
                    applied.append(f'R2K {relfile}:{it.line_of(toks[j].start)}: debug_assert!(..) -> assert!(..) (checked by Kani on every path)')
    if 'R4' in rewrites:
        for j in range(lo_t, hi_t):
            if toks[j].kind == 'punct' and toks[j].text in ('%', '/'):
                l0 = rsx.operand_left(toks, j, lo_t)
                r1 = rsx.operand_right(toks, j, hi_t)
                L = src[toks[l0].start:toks[j - 1].end]
                R = src[toks[j + 1].start:toks[r1 - 1].end]
                fn = '__f64_rem' if toks[j].text == '%' else '__f64_div'
                edits.append(Edit(toks[l0].start, toks[r1 - 1].end, f'{fn}({L}, {R})', 'R4'))
                applied.append(f'R4 {relfile}:{it.line_of(toks[j].start)}: `{L} {toks[j].text} {R}` -> `{fn}({L}, {R})`')


def _subst_text(text: str, a: str, b: str) -> str:
    toks = rsx.tokenize(text)
    pat = [t.text for t in rsx.tokenize(a)]
    out, pos, j = [], 0, 0
    while j < len(toks):
        if [t.text for t in toks[j:j + len(pat)]] == pat:
            out.append(text[pos:toks[j].start]); out.append(b)
            pos = toks[j + len(pat) - 1].end
            j += len(pat)
        else:
            j += 1
    out.append(text[pos:])
    return ''.join(out)


def _rewrite_r6(it, edits, applied, relfile, lo_t, hi_t):
    toks, src = it.toks, it.src
    j = lo_t
    while j < hi_t:
        t = toks[j]
        # IDENT [ A .. B ]  /  & IDENT [ A .. ]
        if t.text == '[' and toks[j - 1].kind == 'ident' and j - 1 > lo_t:
            close = rsx.match_close(toks, j)
            dots = [k for k in range(j + 1, close) if toks[k].text == '..']
            depth_ok = []
            for k in dots:
                # ensure at depth 0 inside the brackets
                d = 0
                for m in range(j + 1, k):
                    if toks[m].text in ('(', '[', '{'):
                        d += 1
                    elif toks[m].text in (')', ']', '}'):
                        d -= 1
                if d == 0:
                    depth_ok.append(k)
            if len(depth_ok) == 1:
                k = depth_ok[0]
                recv_tok = j - 1
                start_tok = recv_tok
                amp = toks[recv_tok - 1].text == '&'
                if amp:
                    start_tok = recv_tok - 1
                recv = toks[recv_tok].text
                a = src[toks[j + 1].start:toks[k - 1].end] if k > j + 1 else '0'
                if k + 1 < close:
                    b = src[toks[k + 1].start:toks[close - 1].end]
                    new = f'str_range({recv}, {a}, {b})'
                else:
                    new = f'str_from({recv}, {a})'
                edits.append(Edit(toks[start_tok].start, toks[close].end, new, 'R6'))
                applied.append(f'R6 {relfile}:{it.line_of(t.start)}: `{src[toks[start_tok].start:toks[close].end]}` -> `{new}`')
                j = close + 1
                continue
        if t.text == '.' and toks[j + 1].text == 'find' and toks[j + 2].text == '(':
            close = rsx.match_close(toks, j + 2)
            arg = src[toks[j + 3].start:toks[close - 1].end]
            if arg.startswith("'"):
                # receiver may itself be a rewritten slice: take the postfix chain start
                r0 = rsx.postfix_chain_start(toks, j, lo_t)
                # if the receiver is covered by an R6 edit, merge: emit wrapper around edit text
                recv_start, recv_end = toks[r0].start, toks[j - 1].end
                inner = None
                for e in list(edits):
                    if e.tag == 'R6' and e.start >= recv_start and e.end <= recv_end:
                        inner = e
                if inner is not None:
                    edits.remove(inner)
                    recv_txt = src[recv_start:inner.start] + inner.text + src[inner.end:recv_end]
                else:
                    recv_txt = src[recv_start:recv_end]
                new = f'str_find_char({recv_txt}, {arg})'
                end_tok = close
                # R11: `OPT.map(|x| EXPR)` directly on the result -> `(match OPT { Some(x) => Some(EXPR), None => None })`
                # (the definition of Option::map; Verus cannot take a precondition-free closure that does arithmetic)
                if (toks[close + 1].text == '.' and toks[close + 2].text == 'map' and toks[close + 3].text == '('
                        and toks[close + 4].text == '|' and toks[close + 5].kind == 'ident' and toks[close + 6].text == '|'):
                    mclose = rsx.match_close(toks, close + 3)
                    var = toks[close + 5].text
                    body = src[toks[close + 7].start:toks[mclose - 1].end]
                    old_txt = src[recv_start:toks[mclose].end]
                    new = f'(match {new} {{ Some({var}) => Some({body}), None => None }})'
                    end_tok = mclose
                    applied.append(f'R11 {relfile}:{it.line_of(toks[close + 2].start)}: `.map(|{var}| {body})` -> `match .. {{ Some({var}) => Some({body}), None => None }}`')
                edits.append(Edit(recv_start, toks[end_tok].end, new, 'R6'))
                applied.append(f'R6 {relfile}:{it.line_of(t.start)}: `{" ".join(src[recv_start:toks[close].end].split())}` -> `str_find_char(..)`')
                j = end_tok + 1
                continue
        j += 1


def assemble(template: str, defines: set | None = None) -> Assembled:
    defines = set(defines or ())
    lines = _read_template(template, defines)
    out_lines: list[str] = []
    origins: list = []
    items: list[ItemInfo] = []
    log: list[str] = []
    i = 0
    canary = 'CANARY' in defines
    mod_stack = []   # (name, depth at which it closes)
    depth = 0
    while i < len(lines):
        line, org = lines[i]
        s = line.strip()
        if s.startswith('//@types'):
            # every struct / enum / type item of a file (plain data definitions), derives dropped
            spec = _parse_kv(s[len('//@types'):])
            relfile = spec['file']
            try:
                fsrc = read_repo(relfile)
            except OSError as e:
                raise LostAnchor(f'{relfile}: {e}')
            only = set(x for x in spec.get('only', '').split(',') if x)
            exc = set(x for x in spec.get('except', '').split(',') if x)
            names = [(k, n) for k, n in rsx.list_items(fsrc) if (not only or n in only) and n not in exc]
            missing = only - {n for _, n in names}
            if missing:
                raise LostAnchor(f'{relfile}: type item(s) not found: {sorted(missing)}')
            copy_names = set(x for x in spec.get('copy', '').split(',') if x)
            for k, n in names:
                ispec = {'kind': k, 'file': relfile, 'name': n, 'drop_derive': 'all', 'vis': 'pub'}
                if n in copy_names:
                    # plain-data types that the extracted bodies copy out of references keep `Clone, Copy`
                    ispec = {'kind': k, 'file': relfile, 'name': n, 'strip_derive': 'Debug,Hash,Default,PartialEq,Eq,PartialOrd,Ord', 'vis': 'pub'}
                text, orgs, info = build_item(ispec, {}, [], defines, log)
                info.flags['mod_path'] = '::'.join(m for m, _ in mod_stack)
                start_line = len(out_lines) + 1
                tl = text.split('\n')
                out_lines.extend(tl); origins.extend(orgs[:len(tl)] + [orgs[-1]] * (len(tl) - len(orgs)))
                info.out_line, info.out_end_line = start_line, len(out_lines)
                items.append(info)
            log.append(f'R1 {relfile}: {len(names)} type definitions extracted (derives dropped): ' + ', '.join(n for _, n in names))
            i += 1
            continue
        if s.startswith('//@item'):
            spec_s = s[len('//@item'):]
            i += 1
            sections: dict = {}
            substs = []
            cur = None
            while True:
                if i >= len(lines):
                    raise TemplateError(f'{org[0]}:{org[1]}: //@item without //@end')
                l2, _ = lines[i]
                s2 = l2.strip()
                i += 1
                if s2 == '//@end':
                    break
                if s2.startswith('//@ ') and cur is None:
                    spec_s += ' ' + s2[4:]
                    continue
                m = re.match(r'//@(contract|prelude|tail)\s*$', s2)
                if m:
                    cur = (m.group(1),); sections[cur] = ''
                    continue
                m = re.match(r'//@(loop|loop_body|before_loop|after_loop)\s+(\d+)\s*$', s2)
                if m:
                    cur = (m.group(1), int(m.group(2))); sections[cur] = ''
                    continue
                m = re.match(r'//@replace_let\s+(\w+)\s+(.+?)\s*$', s2)
                if m:
                    sections.setdefault(('replace_let',), [])
                    sections[('replace_let',)].append((m.group(1), m.group(2)))
                    continue
                m = re.match(r'//@names\s+(.+?)\s*$', s2)
                if m:
                    sections.setdefault(('names',), {})
                    for part in m.group(1).split():
                        a, b = part.split('=')
                        sections[('names',)][a] = b
                    continue
                m = re.match(r'//@keeparm\s+(.+?)\s*$', s2)
                if m:
                    sections.setdefault(('keeparm',), [])
                    sections[('keeparm',)].append(m.group(1))
                    continue
                m = re.match(r'//@droparm\s+(.+?)\s*$', s2)
                if m:
                    sections.setdefault(('droparm',), [])
                    sections[('droparm',)].append(m.group(1))
                    continue
                m = re.match(r'//@closure\s+(\w+)\s+(\S+?)(\s+self)?\s*$', s2)
                if m:
                    cur = ('closure', m.group(1)); sections[cur] = ''
                    sections[('closure_ret', m.group(1))] = m.group(2)
                    sections[('closure_self', m.group(1))] = bool(m.group(3))
                    continue
                m = re.match(r'//@subst\s+(\S+)\s+(\S+)\s*$', s2)
                if m:
                    substs.append((m.group(1), m.group(2)))
                    continue
                if s2.startswith('//@'):
                    raise TemplateError(f'{org[0]}: unknown directive {s2!r}')
                if cur is None:
                    if s2:
                        raise TemplateError(f'{org[0]}: text outside a section in item block: {s2!r}')
                    continue
                sections[cur] += l2 + '\n'
            spec = _parse_kv(spec_s)
            text, orgs, info = build_item(spec, sections, substs, defines, log)
            info.flags['mod_path'] = '::'.join(m for m, _ in mod_stack)
            if 'expect_fns' in spec:
                # the impl block must contain exactly these fn items (a new method of the trait impl would be invisible to the unit)
                names = re.findall(r'\bfn\s+([A-Za-z_][A-Za-z0-9_]*)', text)
                want_fns = [x for x in spec['expect_fns'].split(',') if x]
                if sorted(names) != sorted(want_fns):
                    raise LostAnchor(f"{spec['file']}: impl {spec['name']} is expected to define exactly fn {want_fns}, found {names}")
            if 'expect' in spec:
                got = ' '.join(text.split())
                if got != ' '.join(spec['expect'].split()):
                    raise LostAnchor(f"{spec['file']}: expected `{spec['expect']}`, found `{got}` (a rewrite of this unit depends on it)")
            if spec.get('emit') == 'no':
                continue
            start_line = len(out_lines) + 1
            tl = text.split('\n')
            out_lines.extend(tl); origins.extend(orgs[:len(tl)] + [orgs[-1]] * (len(tl) - len(orgs)))
            info.out_line, info.out_end_line = start_line, len(out_lines)
            items.append(info)
            tw = spec.get('twin', 'yes')
            want_twin = tw == 'yes' or (tw not in ('yes', 'no') and tw in defines)
            cs = spec.get('canary', '')
            info.flags['canary_self'] = bool(canary and (cs == 'self' or (cs and cs in defines)))
            if canary and spec.get('kind', 'fn') in ('fn', 'matchexpr', 'matcharm') and want_twin and info.has_contract:
                text2, orgs2, info2 = build_item(spec, sections, substs, defines, log, twin=True)
                s2l = len(out_lines) + 1
                tl2 = text2.split('\n')
                out_lines.extend(tl2); origins.extend(orgs2[:len(tl2)] + [orgs2[-1]] * (len(tl2) - len(orgs2)))
                info2.out_line, info2.out_end_line = s2l, len(out_lines)
                info.twin_name = info2.emitted_name
                info2.flags['mod_path'] = info.flags['mod_path']
                info2.flags['canary_self'] = False
                items.append(info2)
            continue
        # module nesting of template text (items are brace-balanced and do not count)
        code = line.split('//')[0]
        mm = re.match(r'\s*(?:pub(?:\([a-z]+\))?\s+)?mod\s+([A-Za-z_0-9]+)\s*\{', code)
        opens, closes = code.count('{'), code.count('}')
        if mm:
            mod_stack.append((mm.group(1), depth))
        depth += opens - closes
        while mod_stack and depth <= mod_stack[-1][1]:
            mod_stack.pop()
        out_lines.append(line)
        origins.append(('T:' + os.path.relpath(org[0], VERIF_ROOT), org[1]))
        i += 1
    return Assembled('\n'.join(out_lines) + '\n', origins, items, log, template)


if __name__ == '__main__':
    import sys
    a = assemble(sys.argv[1], set(sys.argv[2:]))
    sys.stdout.write(a.text)
    for r in a.rewrites:
        print('// rewrite:', r, file=sys.stderr)
