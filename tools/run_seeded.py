#!/usr/bin/env python3
"""run_seeded — apply each seeded change to /repo, run the property's check, undo, record what happened."""
import json, os, subprocess, sys
ROOT = os.path.dirname(os.path.dirname(os.path.abspath(__file__)))
only = sys.argv[1:]
rows = []
for d in sorted(os.listdir(os.path.join(ROOT, 'seeded'))):
    if only and d not in only:
        continue
    sd = os.path.join(ROOT, 'seeded', d)
    meta = json.load(open(os.path.join(sd, 'meta.json')))
    pid = meta['property']
    assert subprocess.run(['git', '-C', '/repo', 'status', '--porcelain', '--untracked-files=no'], capture_output=True, text=True).stdout.strip() == '', '/repo not clean'
    a = subprocess.run(['git', '-C', '/repo', 'apply', os.path.join(sd, 'patch.diff')], capture_output=True, text=True)
    if a.returncode != 0:
        rows.append((d, 'patch does not apply: ' + a.stderr.strip()[:200])); continue
    try:
        p = subprocess.run([os.path.join(ROOT, 'check'), pid, '--tier', os.environ.get('SEEDED_TIER', 'quick')], cwd=ROOT, capture_output=True, text=True)
    finally:
        subprocess.run(['git', '-C', '/repo', 'checkout', '--', '.'])
    lines = [l for l in p.stdout.split('\n') if l.startswith('VIOLATION') or l.startswith('failed obligation')]
    res = {'check': f'./check {pid} --tier quick', 'exit': p.returncode, 'output': lines,
           'stderr_tail': p.stderr.strip().split('\n')[-3:] if p.returncode == 2 else [],
           'detected': p.returncode == 1}
    json.dump(res, open(os.path.join(sd, 'check_result.json'), 'w'), indent=1)
    rows.append((d, f"exit {p.returncode} " + ('; '.join(lines[:4]) if lines else ' '.join(res['stderr_tail'])[:300])))
# the evidence files were rewritten by runs on a CHANGED tree: restore them from the unchanged tree
for _pid in sorted({'C04', 'C05', 'C07', 'C19'}):
    subprocess.run([os.path.join(ROOT, 'check'), _pid], cwd=ROOT, capture_output=True, text=True)
for r in rows:
    print(r[0], '->', r[1])
