"""Which units, harnesses and replay oracles decide which property."""

# Each Verus unit: template, list of define-sets to verify ("modes"), and whether a canary twin run is made.
PROPS = {
    'C04': {
        'design_ref': 'DESIGN.md section 6.1',
        'spec_vs_python': True,
        'verus_units': [
            {'template': 'units/c04_int.rs.in', 'modes': [[]], 'canary': True},
            {'template': 'units/c04_int_err.rs.in', 'modes': [[]], 'canary': True},
            {'template': 'units/c07_binop_plan.rs.in', 'modes': [[]], 'canary': True},
            {'template': 'units/c07_compound_tables.rs.in', 'modes': [[]], 'canary': True},
            {'template': 'units/c04_parse_compound.rs.in', 'modes': [[]], 'canary': True},
            {'template': 'units/c07_lower.rs.in', 'modes': [[]], 'canary': True},
            {'template': 'units/c04_emit_glue.rs.in', 'modes': [[]], 'canary': True},
        ],
        'kani': [{'name': 'c04', 'jobs': 8, 'timeout': 1500}],
        # the parser's desugaring of compound assignment on fields / list elements and the recursive descent around the
        # arms under contract: bounded stand-in through the real front end + code generator (emit_binop_expr, the
        # lowering's two arithmetic arms and the checker's compound arm are under contract in the units above)
        'bounded_standins': [
            {'oracle': 'diffrun::C04', 'cases': 0, 'functions': 30, 'programs_quick': 2, 'programs_thorough': 6, 'function': 'the whole pipeline (lexer, parser, checker, lowering, code generator, project generator, rustc, the program) on / // % in 12 statement / operand shapes (nested, mixed with + - *, int(..), let, compound on local / field / element, lambda, bare statement) over 22 operand forms',
             'bound': 'a seeded SAMPLE (not exhaustive): 2 programs (quick) / 6 programs (thorough) of 30 generated test functions each — alternately as one file and as an IMPORTED module next to the main file —, every function called with 3 argument sets; the program must build (rustc judges the declared numeric kind of every expression) and every printed value must equal the documented semantics computed with Python; plus programs that must stop with the documented error text after printing a marker (C04: 11 zero-divisor forms, C05: 10 out-of-range / zero-step forms; all on every run); shapes that need parentheses around + - * sub-expressions and a few shapes that trip unrelated compiler defects are not generated (listed in tools/diffrun.py)'},
            {'oracle': 'incan::fstring_operands', 'cases': 12, 'function': 'parser convert_fstring_parts / parse_fstring_expr (spans of f-string sub-expressions) + checker type map + lowering of operands',
             'bound': 'exhaustive over 6 operators x ints-first / floats-first: four f-strings in one function (int pair, float pair, float var with a float literal, int var with a float literal); each expression must get the helper / promotion for its own operands'},
            {'oracle': 'incan::emit_division', 'cases': 132, 'function': 'parser + lowering of `L op R` / `T op= R` (compound assignment on locals, fields and list elements; const initializers) and emit_binop_expr',
             'bound': 'exhaustive over / // % x int/float left x int/float right x 11 forms (plain, plain with a negated left operand, compound on a local / field / list element, const initializer over literals, bare expression statement, inside int(..), parenthesised operands, call result as left operand, body of a lambda with an untyped parameter); fixed program shapes; checks helper, operand order and promotions in the generated call (a folded const must have Python\'s value)'},
        ],
        # one concrete execution per documented message on the REAL crates (the Display impl that renders the
        # error value is outside both verifiers; the contracts pin the value, these pin its text)
        'pins': [
            ('stdlib::py_mod_i64', {'a': 7, 'b': 0}), ('stdlib::py_floor_div_i64', {'a': 7, 'b': 0}),
            ('stdlib::py_mod', {'l': {'i': 1}, 'r': {'i': 0}}), ('stdlib::py_mod', {'l': {'f': '1.5'}, 'r': {'f': '-0.0'}}),
            ('stdlib::py_floor_div', {'l': {'i': 1}, 'r': {'f': '0.0'}}), ('stdlib::py_div', {'l': {'i': 1}, 'r': {'i': 0}}),
            ('stdlib::py_div', {'l': {'f': '2.5'}, 'r': {'f': '0.0'}}), ('stdlib::py_mod_f64', {'a': '1.0', 'b': '0.0'}),
            ('stdlib::py_floor_div_f64', {'a': '1.0', 'b': '-0.0'}),
            ('stdlib::py_div', {'l': {'i': 7}, 'r': {'i': 2}}), ('stdlib::py_mod', {'l': {'i': -7}, 'r': {'i': 3}}),
            ('stdlib::py_floor_div', {'l': {'f': '-7.0'}, 'r': {'i': 2}}),
        ],
        'not_covered': [
            'in emit_binop_expr the recursive emit_expr of the operands is an assumed contract; quote! is modelled by its literal tokens and spliced values (trusted); in the parser\'s desugaring of compound assignment the parsing of the target and of the value (recursive descent) is the arm\'s input',
            'IEEE-754 division, fmod and floor themselves (hardware / libm)',
        ],
        'assumptions': [],
    },
    'C05': {
        'design_ref': 'DESIGN.md section 6.2',
        'spec_vs_python': True,
        'verus_units': [
            {'template': 'units/c05_strings.rs.in', 'modes': [[]], 'canary': True},
            {'template': 'units/c05_collections.rs.in', 'modes': [['MODE_OK'], ['MODE_ERR']], 'canary': True},
            {'template': 'units/c05_iter.rs.in', 'modes': [['MODE_OK'], ['MODE_ERR']], 'canary': True},
            {'template': 'units/c05_stdlib_strings.rs.in', 'modes': [['MODE_OK'], ['MODE_ERR']], 'canary': True},
            {'template': 'units/c05_emit.rs.in', 'modes': [[]], 'canary': True},
            {'template': 'units/c05_parse_slice.rs.in', 'modes': [[]], 'canary': True},
            {'template': 'units/c05_lower.rs.in', 'modes': [[]], 'canary': True},
        ],
        'kani': [{'name': 'c05', 'jobs': 4, 'timeout': 1500}],
        # the parser's slice syntax and the lowering of Index/Slice produce and consume syntax trees through `&mut self`
        # recursive descent: outside the verifier's reach. Bounded stand-in through the REAL lexer + parser + code
        # generator. (emit_index_expr / emit_slice_expr / emit_range_call themselves are under contract in c05_emit.)
        'bounded_standins': [
            {'oracle': 'incan::emit_range', 'cases': 155, 'function': 'emit_range_call (call site of the runtime range) and the lowering of for loops over range',
             'bound': 'exhaustive over range(e), range(s, e), range(s, e, k) x {variable, 0, negative literal, 2, expression} per written argument; one fixed program shape; checks argument positions and the defaults 0 / 1 in the generated call'},
            {'oracle': 'diffrun::C05', 'cases': 0, 'functions': 30, 'programs_quick': 2, 'programs_thorough': 6, 'function': 'the whole pipeline (lexer, parser, checker, lowering, code generator, project generator, rustc, the program) on index / slice / range forms (objects: variable, field, call result, nested; slices with random bounds and steps; for over slices; range hashes; nested and element assignment; f-strings; match-bound lists)',
             'bound': 'a seeded SAMPLE (not exhaustive): 2 programs (quick) / 6 programs (thorough) of 30 generated test functions each — alternately as one file and as an IMPORTED module next to the main file —, every function called with 3 argument sets; the program must build (rustc judges the declared numeric kind of every expression) and every printed value must equal the documented semantics computed with Python; plus programs that must stop with the documented error text after printing a marker (C04: 11 zero-divisor forms, C05: 10 out-of-range / zero-step forms; all on every run); shapes that need parentheses around + - * sub-expressions and a few shapes that trip unrelated compiler defects are not generated (listed in tools/diffrun.py)'},
            {'oracle': 'incan::multifile_index', 'cases': 8, 'function': 'IrCodegen multi-file generation (try_generate_multi_file / _nested): lowering of an IMPORTED module',
             'bound': 'a helper module with a model and one function next to a main module that imports it, through both multi-file APIs x 4 reads of a field inside the module (list index, str index, list slice, str slice); each must use the runtime helper for the field\'s type'},
            {'oracle': 'incan::emit_slice', 'cases': 287, 'function': 'parser index_or_slice/parse_slice, lowering of Index/Slice, emit_index_expr, emit_slice_expr',
             'bound': 'exhaustive over str/list target x {omitted, variable, 0, -1} start x same end x {omitted, variable, -1, 2} step x compact/spaced spelling, plus 4 index reads, 4 element assignments (list_get_mut) a dict read (dict_get), a nested index `grid[r][c]`, a dict compound assignment 8 reads whose object is a field or a call result (`b.xs[st]`, `word()[st:]`, ..) 2 programs with reads inside two f-strings and 6 further statement contexts (nested assignment target `g[r][c] = v`, `for` over a slice with literal bounds, a list bound to a `match` expression); one fixed program shape; checks the helper and the position of every bound in the generated call'},
        ],
        'pins': [
            ('stdlib::str_index', {'s': 'héllo', 'i': 5}), ('stdlib::str_index', {'s': 'héllo', 'i': -6}), ('stdlib::str_index', {'s': 'héllo', 'i': -4}),
            ('stdlib::str_slice', {'s': 'héllo', 'start': None, 'end': None, 'step': 0}),
            ('stdlib::str_slice', {'s': 'héllo', 'start': None, 'end': None, 'step': -1}),
            ('stdlib::list_get', {'list': [1, 2, 3], 'i': 3}), ('stdlib::list_get', {'list': [1, 2, 3], 'i': -4}), ('stdlib::list_get_mut', {'list': [], 'i': 0}),
            ('stdlib::list_slice', {'list': [1, 2, 3], 'start': None, 'end': None, 'step': 0}),
            ('stdlib::dict_get', {'keys': [1, 2], 'key': 5}), ('stdlib::range', {'a': 0, 'b': 5, 'c': 0}),
            ('stdlib::dict_get_str', {'key': 'k' * 150 + 'é', 'present': False}), ('stdlib::dict_get_str', {'key': '', 'present': False}),
            ('stdlib::str_index', {'s': '¿Qué?', 'i': -2}), ('stdlib::str_index', {'s': '¿Qué?', 'i': 5}), ('core::str_char_at', {'s': 'ÿ\uffff', 'i': -1}),
            ('core::str_char_at', {'s': 'abc', 'i': 3}), ('core::str_slice', {'s': 'abc', 'start': 1, 'end': None, 'step': 0}),
        ],
        'not_covered': [
            'the lexer, the lowering of range calls and of the sub-expressions of an index / slice (recursive descent over syntax trees); in the parser the recursive expression() and in the emitter the recursive emit_expr of the operands are assumed contracts; quote! is modelled by its literal tokens and spliced values (trusted)',
            'HashMap\'s own behaviour is vstd\'s model (obeys_key_model)',
        ],
        'assumptions': [
            'A1: sequence and string lengths are <= isize::MAX (Rust allocation invariant), needed for `len as i64`',
        ],
    },
    'C07': {
        'design_ref': 'DESIGN.md section 6.3',
        'verus_units': [
            {'template': 'units/c07_policy.rs.in', 'modes': [[]], 'canary': True},
            {'template': 'units/c07_exponent.rs.in', 'modes': [[]], 'canary': True},
            {'template': 'units/c07_binop_plan.rs.in', 'modes': [[]], 'canary': True},
            {'template': 'units/c07_checker.rs.in', 'modes': [[]], 'canary': True},
            {'template': 'units/c07_compound_tables.rs.in', 'modes': [[]], 'canary': True},
            {'template': 'units/c07_compound_check.rs.in', 'modes': [[]], 'canary': True},
            {'template': 'units/c07_lower.rs.in', 'modes': [[]], 'canary': True},
            {'template': 'units/c07_compat.rs.in', 'modes': [[]], 'canary': True},
            {'template': 'units/c07_check_assign.rs.in', 'modes': [[]], 'canary': True},
            {'template': 'units/c07_const_eval.rs.in', 'modes': [[]], 'canary': True},
            {'template': 'units/c04_parse_compound.rs.in', 'modes': [[]], 'canary': True},
            {'template': 'units/c04_emit_glue.rs.in', 'modes': [[]], 'canary': True},
        ],
        'kani': [],
        'not_covered': [
            'the checker\'s call-argument position (known finding); in const_eval the recursive evaluation of the operands is the arm\'s input; in check_binary / check_assignment / check_return the recursive check_expr of the operands, resolve_type and the symbol table are assumed contracts (types_compatible is proved on int / float in c07_compat); in the compound-assignment arms (checker, lowering) and the Binary arm of the lowering the scope lookup and the check/lowering of the operand expressions are assumed contracts',
            'in emit_binop_expr the recursive emit_expr of the operands is an assumed contract; quote! is modelled by its literal tokens and spliced values (trusted)',
        ],
        # functions that cannot be brought within the verifier's reach (methods on the checker's state): a bounded
        # stand-in through the REAL front end (lex + parse + check), exhaustive over the stated space; labelled bounded
        'bounded_standins': [
            {'oracle': 'incan::emit_division', 'cases': 132, 'function': '(shared with C04: operand promotions) parser + lowering of `L op R` / `T op= R` (compound assignment on locals, fields and list elements; const initializers) and emit_binop_expr',
             'bound': 'exhaustive over / // % x int/float left x int/float right x 11 forms (plain, plain with a negated left operand, compound on a local / field / list element, const initializer over literals, bare expression statement, inside int(..), parenthesised operands, call result as left operand, body of a lambda with an untyped parameter); fixed program shapes; checks helper, operand order and promotions in the generated call (a folded const must have Python\'s value)'},
            {'oracle': 'incan::static_type', 'cases': 11760, 'function': 'TypeChecker: annotated let / return / call argument of a binary expression',
             'bound': 'exhaustive over 7 operators x int/float operand kinds x int/float annotation x 7 right-operand forms (variable, const, literal, 0, negative literal, parenthesised, double minus) x 5 binding positions (let, return, argument, const initializer, let inside an elif branch) x bare / parenthesised right-hand side x 3 annotation spellings (int / Int / INT); fixed program shapes; accepted iff the annotation is the kind given by the table'},
            {'oracle': 'diffrun::C07', 'cases': 0, 'functions': 30, 'programs_quick': 2, 'programs_thorough': 6, 'function': 'the whole pipeline (lexer, parser, checker, lowering, code generator, project generator, rustc, the program) on + - * ** and comparisons over int / float operands in 22 operand forms (annotated let, compound on local / field, zip / enumerate components, natural-precedence nesting)',
             'bound': 'a seeded SAMPLE (not exhaustive): 2 programs (quick) / 6 programs (thorough) of 30 generated test functions each — alternately as one file and as an IMPORTED module next to the main file —, every function called with 3 argument sets; the program must build (rustc judges the declared numeric kind of every expression) and every printed value must equal the documented semantics computed with Python; plus programs that must stop with the documented error text after printing a marker (C04: 11 zero-divisor forms, C05: 10 out-of-range / zero-step forms; all on every run); shapes that need parentheses around + - * sub-expressions and a few shapes that trip unrelated compiler defects are not generated (listed in tools/diffrun.py)'},
            {'oracle': 'incan::fstring_operands', 'cases': 12, 'function': 'parser convert_fstring_parts / parse_fstring_expr (spans of f-string sub-expressions) + checker type map + lowering of operands',
             'bound': 'exhaustive over 6 operators x ints-first / floats-first: four f-strings in one function (int pair, float pair, float var with a float literal, int var with a float literal); each expression must get the helper / promotion for its own operands'},
            {'oracle': 'incan::multifile_promotion', 'cases': 6, 'function': 'IrCodegen multi-file generation (try_generate_multi_file / _nested): lowering of an IMPORTED module',
             'bound': 'a helper module with a model and one function next to a main module that imports it, through both multi-file APIs x 3 arithmetic expressions over int / float fields inside the module; int operands of a float operation must be promoted'},
            {'oracle': 'incan::static_type_sources', 'cases': 140, 'function': 'TypeChecker: typing of operands that come out of typed containers and builtins (check_builtin_call zip / enumerate, index, dict value, len)',
             'bound': 'exhaustive over 10 operand sources (an un-annotated const declared BELOW the function, int / float; zip pair.0 / pair.1, enumerate pair.0 / pair.1, list element int / float, dict value, len()) x 7 operators x int / float annotation; `y: T = SRC <op> 2` accepted iff T is the table kind'},
            {'oracle': 'incan::static_type_nested', 'cases': 1500, 'function': 'TypeChecker on nested arithmetic (check_binary applied recursively through check_expr, Paren, Unary)',
             'bound': 'a seeded sample of 1500 random expression trees of depth <= 3 over int/float variables, fields and literals with all seven operators, optionally under a comparison; annotated let; NOT exhaustive'},
            {'oracle': 'incan::emit_promotion', 'cases': 3584, 'function': 'lowering (operand typing, compound-assignment desugaring) + emit_binop_expr for + - * and **',
             'bound': 'exhaustive over 4 operators x 4 left forms (int/float variable, int/float field) x 14 right forms (variables, fields, len(), index, literals incl. literal ** literal beyond i64, parenthesised field / call) x plain/compound x flat / inner block shadowing outer variables of the other kind x with / without module-level string constants named like the variables x compound target local / field of a local model value; checks which operands are promoted / pow vs powf in the generated Rust'},
            {'oracle': 'incan::compound_assign', 'cases': 72, 'function': 'parser desugaring of compound assignment on fields / list elements + TypeChecker::check_statement, CompoundAssignment arm',
             'bound': 'exhaustive over 6 compound operators x int/float target x int/float value x local / field / list-element target; fixed program shapes'},
        ],
        'assumptions': ['A6: integer literals in the syntax tree / IR are non-negative (the lexer scans digits), so negating one cannot overflow'],
    },
    'C19': {
        'design_ref': 'DESIGN.md section 6.4',
        'spec_conformance_c19': True,
        'verus_units': [
            {'template': 'units/c19_lsp.rs.in', 'modes': [[]], 'canary': True},
            {'template': 'units/c19_syntax.rs.in', 'modes': [[]], 'canary': True},
        ],
        'kani': [],
        'not_covered': [
            'src/lsp/backend.rs (async tower-lsp handlers): the call sites of compile_error_to_diagnostic / span_to_range in analyze_document, collect_dependency_modules, hover and goto_definition only by the bounded stand-ins; the concurrency of handlers (C18) not at all',
        ],
        # compile_error_to_diagnostic builds lsp_types::Diagnostic / Url values (external crates): bounded stand-in on the real function
        'bounded_standins': [
            {'oracle': 'incan::fmt_error_location', 'cases': 15, 'function': 'format_source_with_config error path (which text it lexes vs which text it renders the error against)',
             'bound': 'exhaustive over 5 document prefixes (none, BOM, comment lines with multi-byte / astral characters, CRLF) x 3 positions of a stray `!`; the reported <input>:line:col must agree with counting in the given text'},
            {'oracle': 'syntax::format_error_location', 'cases': 450, 'function': 'format_error (the call site of get_line_info: which offset it passes, how it prints line:col)',
             'bound': 'exhaustive over 15 fixed documents (incl. tab-indented lines) x every span start in 0..=len+1 plus two huge offsets; the `--> file:line:col` header must agree with counting newlines and characters'},
            {'oracle': 'lsp::published_ranges', 'cases': 6, 'function': 'src/lsp/backend.rs analyze_document (what the server publishes)',
             'bound': 'the real server behind tower_lsp::Server over an in-memory pipe (initialize, initialized, didOpen) on 6 fixed ill-formed documents whose errors follow multi-byte / astral characters or CRLF; every published range (and related-information range) must lie inside the document'},
            {'oracle': 'lsp::dependency_ranges', 'cases': 12, 'function': 'src/lsp/backend.rs collect_dependency_modules (what the server publishes for an imported module that does not lex / parse, and the summary on the import)',
             'bound': 'the real server behind tower_lsp::Server over an in-memory pipe on 3 entry documents (many short lines, a single line, non-ASCII comment lines before the import) x 4 dependency files on disk (one long line with a stray character, non-ASCII text before the error, a parse error on the last of several lines, CRLF); every range published under the dependency URI must lie inside the DEPENDENCY text and start where the front end\'s span starts; every range published for the entry document must lie inside the entry text'},
            {'oracle': 'incan::cli_check_location', 'cases': 6, 'function': 'src/cli/commands.rs check_file / read_source -> format_error (the command-line path from the file on disk to the printed location)',
             'bound': '6 files written to disk (error at the end of a file without a final newline x4, with one, after multi-byte text) checked with the real check_file; every printed `--> file:line:col` must name a line of that file and a column on it'},
            {'oracle': 'lsp::pipe_ranges', 'cases': 27, 'function': 'src/lsp/backend.rs: every request handler the server advertises in its capabilities (present and future: documentSymbol, references, folding ranges, ...)',
             'bound': 'the real server behind tower_lsp::Server over an in-memory pipe on the same 9 documents: after initialize, each advertised provider is queried (document-wide requests once, position-based ones at every line start, every third character boundary and the end of the text) and every {start, end} range anywhere in the answers must lie inside the document; x 3 modes: the document alone, a longer second document with the same path under another URI scheme opened after it, the document edited first (lines inserted at the top, then a line deleted) in the form the advertised sync kind asks for'},
            {'oracle': 'lsp::server_ranges', 'cases': 700, 'function': 'src/lsp/backend.rs hover / goto_definition (call sites of span_to_range and position_to_offset)',
             'bound': 'the real IncanLanguageServer driven with did_open + hover + goto_definition on 9 fixed documents (plain, decorated declarations, multi-byte and astral characters, CRLF, enum, syntax error, no final newline x2, tab-indented with a decorated declaration last) x every character boundary as the cursor; every returned range must lie inside the document'},
            {'oracle': 'lsp::diagnostic_range', 'cases': 13500, 'function': 'compile_error_to_diagnostic',
             'bound': 'exhaustive over 15 fixed documents (ASCII, multi-byte, astral, LF/CRLF, empty lines, tabs) x every (start, end) in 0..=len+1 plus two huge offsets; checks the range and every related-information range'},
        ],
        'assumptions': [
            'A2: documents have fewer than 2^32 characters (LSP positions are u32) and fewer than usize::MAX bytes',
            'A3: span starts are < usize::MAX (`start + 1` in span_to_range); spans are offsets into in-memory strings',
        ],
    },
}

GLOBAL_ASSUMPTIONS = [
    'T6: Verus 0.2026.09.13 + bundled Z3, vstd specifications of core/alloc (Vec, String, slices, HashMap, clamp, unwrap_or, UTF-8 model), Kani 0.68 / CBMC 6.11 / CaDiCaL are trusted',
    'T7: the extractor (tools/rsx.py, tools/assemble.py) copies item bytes from /repo and applies only the rewrites listed under coverage.extraction_rewrites',
    'A5: machine integers are checked exactly (every i64/usize/u32 operation against its range); nothing is mathematical by fiat',
]
