"""Which units, harnesses and replay oracles decide which property."""

# Each Verus unit: template, list of define-sets to verify ("modes"), and whether a canary twin run is made.
PROPS = {
    'C04': {
        'design_ref': 'DESIGN.md section 6.1',
        'verus_units': [
            {'template': 'units/c04_int.rs.in', 'modes': [[]], 'canary': True},
            {'template': 'units/c04_int_err.rs.in', 'modes': [[]], 'canary': True},
        ],
        'kani': [],
        'not_covered': [
            'operator -> helper selection in src/backend/ir/conversions.rs determine_binop_plan (TokenStream-valued; see C01)',
            'IEEE-754 division, fmod and floor themselves (hardware / libm)',
        ],
        'assumptions': [],
    },
}

GLOBAL_ASSUMPTIONS = [
    'T6: Verus 0.2026.09.13 + bundled Z3, vstd specifications of core/alloc (Vec, String, slices, HashMap, clamp, unwrap_or, UTF-8 model), Kani 0.68 / CBMC 6.11 / CaDiCaL are trusted',
    'T7: the extractor (tools/rsx.py, tools/assemble.py) copies item bytes from /repo and applies only the rewrites listed under coverage.extraction_rewrites',
    'A5: machine integers are checked exactly (every i64/usize/u32 operation against its range); nothing is mathematical by fiat',
]
