// ---------------------------------------------------------------------------------------------
// specs/quote_shim.rs — shim for `quote! { .. #x .. }` with interpolation (rewrite R12). The produced token
// stream is described by three sequences that together determine it:
//   ts_lits  — its literal tokens, in order (each source token of the macro body, as text)
//   ts_subs  — the spliced values, in order (token streams by value; strings / integers as the literal they become)
//   ts_cuts  — for each spliced value, the number of literal tokens that precede it
// proc_macro2 / quote are external crates that the verifier cannot see: this is a trusted model of `quote!`
// (it concatenates, in order, the literal tokens and the spliced values).
// ---------------------------------------------------------------------------------------------
pub enum QPart { Sub(TokenStream), Str(Seq<char>), Int(int) }
pub uninterp spec fn ts_lits(t: TokenStream) -> Seq<Seq<char>>;
pub uninterp spec fn ts_subs(t: TokenStream) -> Seq<QPart>;
pub uninterp spec fn ts_cuts(t: TokenStream) -> Seq<int>;

/// what a spliced value contributes (`quote::ToTokens`)
pub trait __ToTokens { spec fn part(&self) -> QPart; }
impl __ToTokens for TokenStream { open spec fn part(&self) -> QPart { QPart::Sub(*self) } }
impl __ToTokens for String { open spec fn part(&self) -> QPart { QPart::Str(self@) } }
impl __ToTokens for i64 { open spec fn part(&self) -> QPart { QPart::Int(*self as int) } }
impl<T: __ToTokens> __ToTokens for &T { open spec fn part(&self) -> QPart { (**self).part() } }

#[verifier::external_body]
pub struct __QP<'a> { _p: core::marker::PhantomData<&'a u8> }
pub uninterp spec fn qp_view(p: __QP<'_>) -> QPart;
impl<'a> View for __QP<'a> { type V = QPart; open spec fn view(&self) -> QPart { qp_view(*self) } }
#[verifier::external_body]
pub fn __qs<'a, T: __ToTokens>(t: &'a T) -> (r: __QP<'a>)
    ensures r@ == t.part(),
{ unimplemented!() }

#[verifier::external_body]
pub fn __quote_parts(lits: &[&'static str], subs: &[__QP<'_>], cuts: &[usize]) -> (r: TokenStream)
    ensures
        ts_lits(r) == lits@.map_values(|s: &'static str| s@),
        ts_subs(r) == subs@.map_values(|p: __QP<'_>| p@),
        ts_cuts(r) == cuts@.map_values(|c: usize| c as int),
{ unimplemented!() }

// ---- vocabulary for contracts over such streams
pub open spec fn sub(t: TokenStream) -> QPart { QPart::Sub(t) }
/// the literal tokens of `t` are exactly `l`
pub open spec fn lits_are(t: TokenStream, l: Seq<Seq<char>>) -> bool { ts_lits(t) =~= l }
/// the spliced values of `t` are exactly `s`, the i-th after `c[i]` literal tokens
pub open spec fn subs_are(t: TokenStream, s: Seq<QPart>, c: Seq<int>) -> bool { ts_subs(t) =~= s && ts_cuts(t) =~= c }
/// every literal token of `t` satisfies `ok` (streams of up to 24 literal tokens)
pub open spec fn lits_all(t: TokenStream, ok: spec_fn(Seq<char>) -> bool) -> bool {
    let l = ts_lits(t);
    l.len() <= 24 && forall|i: int| 0 <= i < l.len() ==> ok(#[trigger] l[i])
}
