// ---------------------------------------------------------------------------------------------
// specs/emit_binop.rs — what the tokens of an emitted numeric binary operation must be (C04 + C07):
// the documented helper applied to (left, right) in source order, each operand converted exactly when
// the table says the operation is float and the operand is int (no repository code).
// The contract is about WHICH values are spliced WHERE and which kind of literal tokens may surround
// them; it does not fix one spelling (`(x) as f64` and `f64::from(x)` are both conversions to float).
// ---------------------------------------------------------------------------------------------

/// literal tokens of a conversion of one operand to float
pub open spec fn float_conv_tok(t: Seq<char>) -> bool {
    t == "("@ || t == ")"@ || t == "as"@ || t == "f64"@ || t == "::"@ || t == "from"@ || t == "."@ || t == "into"@
}
/// `out` is `t` itself, or `t` spliced once inside a conversion to float when the operand is promoted
pub open spec fn conv_tokens(c: NumericConversion, t: TokenStream, out: TokenStream) -> bool {
    match c {
        NumericConversion::None => out == t,
        NumericConversion::ToFloat => ts_subs(out) =~= seq![sub(t)] && ts_lits(out).len() > 0 && lits_all(out, |x: Seq<char>| float_conv_tok(x)),
    }
}
/// the spliced operand is the (possibly converted) operand tokens, or those once more inside plain parentheses
/// (`( (x) as f64 ) < y`: a cast followed by `<` does not parse in Rust)
pub open spec fn is_sub_conv(p: QPart, c: NumericConversion, t: TokenStream) -> bool {
    p matches QPart::Sub(x) && (conv_tokens(c, t, x)
        || (ts_subs(x).len() == 1 && (ts_subs(x)[0] matches QPart::Sub(y) && conv_tokens(c, t, y)) && lits_all(x, |z: Seq<char>| paren_tok(z))))
}
pub open spec fn call_tok(t: Seq<char>) -> bool { t == "("@ || t == ")"@ || t == ","@ }
// (`pow` is the integer power and `powf` the float power: each whitelist admits only its own)
pub open spec fn pow_int_tok(t: Seq<char>) -> bool { t == "."@ || t == "pow"@ || t == "("@ || t == ")"@ || t == "as"@ || t == "u32"@ }
pub open spec fn pow_float_tok(t: Seq<char>) -> bool { t == "."@ || t == "powf"@ || t == "("@ || t == ")"@ }
pub open spec fn paren_tok(t: Seq<char>) -> bool { t == "("@ || t == ")"@ }

/// the output tokens for `left op right` (both int/float), given the tokens `lt`, `rt` of the operands
pub open spec fn numeric_tokens_ok(out: TokenStream, lt: TokenStream, rt: TokenStream, op: IrBinOp, left: TypedExpr, right: TypedExpr) -> bool {
    let nop = ir_num(op)->0;
    let l = irtype_num(left.ty)->0;
    let r = irtype_num(right.ty)->0;
    let k = if op is Pow { Some(exp_kind(right.ty is Float, ir_int_literal(right))) } else { None::<PowExponentKind> };
    let t = numeric_table(nop, l, r, k);
    let lc = conv_of(t == NumericTy::Float && l == NumericTy::Int);
    let rc = conv_of(t == NumericTy::Float && r == NumericTy::Int);
    let s = ts_subs(out);
    if nop == NumericOp::Div || nop == NumericOp::FloorDiv || nop == NumericOp::Mod {
        // HELPER ( left , right ): the helper first, then the operands in source order, only call punctuation around them
        &&& s.len() == 3
        &&& (s[0] matches QPart::Sub(path) && ts_text(path) == helper_path(nop, t))
        &&& is_sub_conv(s[1], lc, lt) &&& is_sub_conv(s[2], rc, rt)
        &&& ts_cuts(out).len() == 3 && ts_cuts(out)[0] < ts_cuts(out)[1] < ts_cuts(out)[2]
        &&& lits_all(out, |x: Seq<char>| call_tok(x))
    } else if nop == NumericOp::Pow {
        // base . pow|powf ( exponent .. ): the integer power for an int result, the float power otherwise
        &&& s.len() == 2
        &&& is_sub_conv(s[0], lc, lt) &&& is_sub_conv(s[1], rc, rt)
        &&& ts_cuts(out).len() == 2 && ts_cuts(out)[0] < ts_cuts(out)[1]
        &&& (if t == NumericTy::Int { lits_all(out, |x: Seq<char>| pow_int_tok(x)) } else { lits_all(out, |x: Seq<char>| pow_float_tok(x)) })
    } else {
        // left OP right
        &&& s.len() == 3
        &&& is_sub_conv(s[0], lc, lt)
        &&& (s[1] matches QPart::Sub(tok) && ts_text(tok) == infix_symbol(op))
        &&& is_sub_conv(s[2], rc, rt)
        &&& lits_all(out, |x: Seq<char>| paren_tok(x))
    }
}
