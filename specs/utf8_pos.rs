// ---------------------------------------------------------------------------------------------
// specs/utf8_pos.rs — documents, byte offsets and (line, column) positions as mathematics
// (no repository code). A document is s = source@ : Seq<char>.
// ---------------------------------------------------------------------------------------------

pub open spec fn utf8_len(c: char) -> int { encode_scalar(c as u32).len() as int }

pub proof fn lemma_utf8_len(c: char)
    ensures 1 <= utf8_len(c) <= 4,
{
}

/// byte offset of the k-th character boundary = length of the UTF-8 encoding of the first k characters
pub open spec fn byte_off(s: Seq<char>, k: int) -> int
    decreases k
{
    if k <= 0 { 0 } else { byte_off(s, k - 1) + utf8_len(s[k - 1]) }
}

pub proof fn lemma_encode_len(s: Seq<char>, k: int)
    requires 0 <= k <= s.len(),
    ensures encode_utf8(s.take(k)).len() == byte_off(s, k),
    decreases k
{
    if k == 0 {
        assert(s.take(0) =~= Seq::<char>::empty());
    } else {
        lemma_encode_len(s, k - 1);
        assert(s.take(k) =~= s.take(k - 1).push(s[k - 1]));
        encode_utf8_push(s.take(k - 1), s[k - 1]);
    }
}

/// `source.len()` (bytes) is the offset of the last boundary — proved from vstd's UTF-8 model.
pub proof fn lemma_len_is_byte_off(source: &str)
    ensures source.spec_bytes().len() == byte_off(source@, source@.len() as int),
{
    lemma_encode_len(source@, source@.len() as int);
    assert(source@.take(source@.len() as int) =~= source@);
}

/// "line/column agree with counting newlines and characters in the text":
/// (number of '\n' in s[0..k], number of characters since the last '\n' in s[0..k])
pub open spec fn pos_of(s: Seq<char>, k: int) -> (int, int)
    decreases k
{
    if k <= 0 { (0, 0) } else {
        let p = pos_of(s, k - 1);
        if s[k - 1] == '\n' { (p.0 + 1, 0) } else { (p.0, p.1 + 1) }
    }
}

pub open spec fn lex_lt(a: (int, int), b: (int, int)) -> bool { a.0 < b.0 || (a.0 == b.0 && a.1 < b.1) }
pub open spec fn lex_le(a: (int, int), b: (int, int)) -> bool { a == b || lex_lt(a, b) }

pub proof fn lemma_pos_of_bounds(s: Seq<char>, k: int)
    requires 0 <= k <= s.len(),
    ensures 0 <= pos_of(s, k).0 <= k, 0 <= pos_of(s, k).1 <= k, pos_of(s, k).0 + pos_of(s, k).1 <= k,
    decreases k
{
    if k > 0 { lemma_pos_of_bounds(s, k - 1); }
}

/// positions are strictly monotone in character boundaries
pub proof fn lemma_pos_of_strict_mono(s: Seq<char>, i: int, j: int)
    requires 0 <= i < j <= s.len(),
    ensures lex_lt(pos_of(s, i), pos_of(s, j)),
    decreases j - i
{
    lemma_pos_of_bounds(s, j - 1);
    if i < j - 1 { lemma_pos_of_strict_mono(s, i, j - 1); }
}

pub proof fn lemma_pos_of_mono(s: Seq<char>, i: int, j: int)
    requires 0 <= i <= j <= s.len(),
    ensures lex_le(pos_of(s, i), pos_of(s, j)),
{
    if i < j { lemma_pos_of_strict_mono(s, i, j); }
}

/// after a newline at index k0 every later boundary is on a later line
pub proof fn lemma_after_newline(s: Seq<char>, k0: int, k: int)
    requires 0 <= k0 < k <= s.len(), s[k0] == '\n',
    ensures pos_of(s, k).0 >= pos_of(s, k0).0 + 1,
    decreases k - k0
{
    if k > k0 + 1 { lemma_after_newline(s, k0, k - 1); }
}

pub proof fn lemma_byte_off_mono(s: Seq<char>, i: int, j: int)
    requires 0 <= i <= j <= s.len(),
    ensures byte_off(s, i) <= byte_off(s, j), i < j ==> byte_off(s, i) < byte_off(s, j), 0 <= byte_off(s, i),
    decreases j
{
    if j > 0 { lemma_utf8_len(s[j - 1]); }
    if i < j { lemma_byte_off_mono(s, i, j - 1); } else { if j > 0 { lemma_byte_off_mono(s, 0, j - 1); lemma_byte_off_mono(s, j - 1, j - 1); } }
}

/// everything a cursor at boundary k0 needs, as quantified facts (one loop-body prelude)
pub proof fn lemma_cursor_facts(s: Seq<char>, k0: int)
    requires 0 <= k0 <= s.len(),
    ensures
        forall|k: int| k0 < k <= s.len() ==> lex_lt(pos_of(s, k0), #[trigger] pos_of(s, k)),
        (k0 < s.len() && s[k0] == '\n') ==> forall|k: int| k0 < k <= s.len() ==> (#[trigger] pos_of(s, k)).0 >= pos_of(s, k0).0 + 1,
        forall|k: int| 0 <= k <= s.len() ==> 0 <= #[trigger] byte_off(s, k) <= byte_off(s, s.len() as int),
        forall|k: int| k0 < k <= s.len() ==> byte_off(s, k0) < #[trigger] byte_off(s, k),
        0 <= pos_of(s, k0).0 <= k0, 0 <= pos_of(s, k0).1 <= k0,
        k0 < s.len() ==> byte_off(s, k0 + 1) == byte_off(s, k0) + utf8_len(s[k0]),
        k0 < s.len() ==> pos_of(s, k0 + 1) == (if s[k0] == '\n' { (pos_of(s, k0).0 + 1, 0int) } else { (pos_of(s, k0).0, pos_of(s, k0).1 + 1) }),
{
    lemma_pos_of_bounds(s, k0);
    assert forall|k: int| k0 < k <= s.len() implies lex_lt(pos_of(s, k0), #[trigger] pos_of(s, k)) by {
        lemma_pos_of_strict_mono(s, k0, k);
    }
    if k0 < s.len() && s[k0] == '\n' {
        assert forall|k: int| k0 < k <= s.len() implies (#[trigger] pos_of(s, k)).0 >= pos_of(s, k0).0 + 1 by {
            lemma_after_newline(s, k0, k);
        }
    }
    assert forall|k: int| 0 <= k <= s.len() implies 0 <= #[trigger] byte_off(s, k) <= byte_off(s, s.len() as int) by {
        lemma_byte_off_mono(s, k, s.len() as int);
    }
    assert forall|k: int| k0 < k <= s.len() implies byte_off(s, k0) < #[trigger] byte_off(s, k) by {
        lemma_byte_off_mono(s, k0, k);
    }
}

/// k is the least boundary whose byte offset is >= o
pub open spec fn first_boundary_at_or_after(s: Seq<char>, o: int, k: int) -> bool {
    0 <= k <= s.len() && byte_off(s, k) >= o && (forall|j: int| 0 <= j < k ==> byte_off(s, j) < o)
}

pub open spec fn clampo(s: Seq<char>, o: int) -> int {
    if o <= byte_off(s, s.len() as int) { o } else { byte_off(s, s.len() as int) }
}

pub proof fn lemma_first_boundary_mono(s: Seq<char>, o1: int, o2: int, k1: int, k2: int)
    requires o1 <= o2, first_boundary_at_or_after(s, o1, k1), first_boundary_at_or_after(s, o2, k2),
    ensures k1 <= k2,
{
    if k2 < k1 { assert(byte_off(s, k2) < o1); }
}

pub proof fn lemma_first_boundary_unique(s: Seq<char>, o: int, k1: int, k2: int)
    requires first_boundary_at_or_after(s, o, k1), first_boundary_at_or_after(s, o, k2),
    ensures k1 == k2,
{
    lemma_first_boundary_mono(s, o, o, k1, k2);
    lemma_first_boundary_mono(s, o, o, k2, k1);
}

/// for an offset that *is* a character boundary, the least boundary at or after it is itself
pub proof fn lemma_first_boundary_of_boundary(s: Seq<char>, k: int)
    requires 0 <= k <= s.len(),
    ensures first_boundary_at_or_after(s, byte_off(s, k), k),
{
    assert forall|j: int| 0 <= j < k implies byte_off(s, j) < byte_off(s, k) by { lemma_byte_off_mono(s, j, k); }
}
