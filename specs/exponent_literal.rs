// ---------------------------------------------------------------------------------------------
// specs/exponent_literal.rs — "int ** non-negative int literal": what counts as an integer literal
// exponent, on the surface syntax tree and on the IR (no repository code).
// A literal, optionally negated once, optionally parenthesised (parentheses exist only on the surface).
// ---------------------------------------------------------------------------------------------
pub open spec fn ast_int_literal(e: Spanned<Expr>) -> Option<i64>
    decreases e
{
    match e.node {
        Expr::Literal(Literal::Int(n)) => Some(n),
        Expr::Unary(UnaryOp::Neg, inner) => match inner.node {
            Expr::Literal(Literal::Int(n)) => if n > i64::MIN { Some((-n) as i64) } else { None },
            _ => None,
        },
        Expr::Paren(inner) => ast_int_literal(*inner),
        _ => None,
    }
}

/// A6 (input invariant, from the lexer: integer literals are scanned from digits, hence >= 0):
/// a negated literal is never i64::MIN, anywhere under the parentheses.
pub open spec fn ast_literals_ok(e: Spanned<Expr>) -> bool
    decreases e
{
    match e.node {
        Expr::Unary(UnaryOp::Neg, inner) => match inner.node {
            Expr::Literal(Literal::Int(n)) => n > i64::MIN,
            _ => true,
        },
        Expr::Paren(inner) => ast_literals_ok(*inner),
        _ => true,
    }
}

pub open spec fn ir_int_literal(e: TypedExpr) -> Option<i64> {
    match e.kind {
        IrExprKind::Int(n) => Some(n),
        IrExprKind::UnaryOp { op: IrUnaryOp::Neg, operand } => match operand.kind {
            IrExprKind::Int(n) => if n > i64::MIN { Some((-n) as i64) } else { None },
            _ => None,
        },
        _ => None,
    }
}

pub open spec fn ir_literals_ok(e: TypedExpr) -> bool {
    match e.kind {
        IrExprKind::UnaryOp { op: IrUnaryOp::Neg, operand } => match operand.kind {
            IrExprKind::Int(n) => n > i64::MIN,
            _ => true,
        },
        _ => true,
    }
}
