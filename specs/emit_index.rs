// ---------------------------------------------------------------------------------------------
// specs/emit_index.rs — what the generated tokens for `x[i]`, `x[a:b:c]`, `x[i] = v` and `range(..)`
// must be (C05): the runtime helper that implements the documented index arithmetic for the
// container's type, applied to the emitted operands in source order, omitted bounds as `None`,
// defaults 0 / 1 for range (no repository code).
// The contracts say WHICH values are spliced in WHICH order, which helper path the literal tokens
// start with, and that every other literal token is call / borrow / conversion punctuation (so no
// arithmetic can be applied to an operand on the way); they do not fix one spelling of a conversion.
// ---------------------------------------------------------------------------------------------

/// one level of reference is looked through
pub open spec fn strip_ref(t: IrType) -> IrType {
    match t { IrType::Ref(i) => *i, IrType::RefMut(i) => *i, o => o }
}
pub open spec fn is_str_type(t: IrType) -> bool { t is String || t is FrozenStr }

/// literal tokens that may surround an operand without changing its value: call and borrow punctuation, `Some`,
/// conversions between integer types, `.clone()`, dereference
pub open spec fn harmless_tok(t: Seq<char>) -> bool {
    t == "("@ || t == ")"@ || t == ","@ || t == "&"@ || t == "mut"@ || t == "*"@ || t == "."@ || t == "clone"@
    || t == "Some"@ || t == "as"@ || t == "i64"@ || t == "::"@ || t == "from"@ || t == "into"@
}
/// ... or a segment of the helper's path
pub open spec fn path_tok(t: Seq<char>) -> bool {
    t == "incan_stdlib"@ || t == "strings"@ || t == "collections"@ || t == "iter"@
}
/// the literal tokens of `out` from position k on are the path `incan_stdlib :: module :: name (` followed by harmless
/// tokens only, and every spliced value comes after the opening parenthesis (it is an argument)
pub open spec fn helper_at(out: TokenStream, k: int, module: Seq<char>, name: Seq<char>) -> bool {
    let l = ts_lits(out);
    &&& l.len() >= k + 6 && l.len() <= 24
    &&& l[k] == "incan_stdlib"@ && l[k + 1] == "::"@ && l[k + 2] == module && l[k + 3] == "::"@ && l[k + 4] == name && l[k + 5] == "("@
    &&& forall|i: int| k + 6 <= i < l.len() ==> harmless_tok(#[trigger] l[i])
    &&& forall|i: int| 0 <= i < ts_cuts(out).len() ==> #[trigger] ts_cuts(out)[i] >= k + 6
}
/// `out` is a call of the helper, possibly dereferenced (`* helper ( .. )`)
/// (stated as a disjunction of equalities: distinct string literals are not known to differ without revealing them)
pub open spec fn calls_helper(out: TokenStream, module: Seq<char>, name: Seq<char>) -> bool {
    helper_at(out, 0, module, name) || (ts_lits(out).len() > 0 && ts_lits(out)[0] == "*"@ && helper_at(out, 1, module, name))
}
/// `x` splices `t` once among harmless tokens (e.g. `( t ) as i64`, `i64::from(t)`), or is `t` itself
pub open spec fn wraps(x: TokenStream, t: TokenStream) -> bool {
    x == t || (ts_subs(x) =~= seq![sub(t)] && lits_all(x, |y: Seq<char>| harmless_tok(y)))
}
pub open spec fn is_wrap(p: QPart, t: TokenStream) -> bool { p matches QPart::Sub(x) && wraps(x, t) }
/// a present bound is wrapped (`Some(..)`), an omitted one is the token `None`
pub open spec fn opt_bound(p: QPart, v: Option<TokenStream>) -> bool {
    p matches QPart::Sub(x) && (match v {
        Some(t) => ts_subs(x) =~= seq![sub(t)] && ts_lits(x).len() > 0 && ts_lits(x)[0] == "Some"@ && lits_all(x, |y: Seq<char>| harmless_tok(y)),
        None => ts_text(x) == "None"@,
    })
}
/// `out` is `x` spliced alone among harmless tokens (`* x`, `x . clone ( )`, `( x )`)
pub open spec fn unwrap1(out: TokenStream) -> Option<TokenStream> {
    if ts_subs(out).len() == 1 && lits_all(out, |y: Seq<char>| harmless_tok(y)) {
        match ts_subs(out)[0] { QPart::Sub(x) => Some(x), _ => None::<TokenStream> }
    } else { None::<TokenStream> }
}
/// `ok` holds of `out`, or of what `out` wraps (up to two levels: the call may be built first and dereferenced / cloned after)
pub open spec fn up_to_2_wrappers(out: TokenStream, ok: spec_fn(TokenStream) -> bool) -> bool {
    ok(out) || (unwrap1(out) matches Some(x) && (ok(x) || (unwrap1(x) matches Some(y) && ok(y))))
}
pub open spec fn increasing(c: Seq<int>) -> bool { forall|i: int, j: int| 0 <= i < j < c.len() ==> c[i] < c[j] }

/// HELPER ( container , index ): the call itself
pub open spec fn index_call(out: TokenStream, module: Seq<char>, name: Seq<char>, o: TokenStream, i: TokenStream) -> bool {
    let s = ts_subs(out);
    calls_helper(out, module, name) && s.len() == 2 && is_wrap(s[0], o) && is_wrap(s[1], i) && increasing(ts_cuts(out))
}
pub open spec fn index_tokens_ok(out: TokenStream, o: TokenStream, i: TokenStream, ty: IrType) -> bool {
    match strip_ref(ty) {
        IrType::String | IrType::FrozenStr => up_to_2_wrappers(out, |x: TokenStream| index_call(x, "strings"@, "str_index"@, o, i)),
        IrType::Dict(_, _) => up_to_2_wrappers(out, |x: TokenStream| index_call(x, "collections"@, "dict_get"@, o, i)),
        IrType::List(_) => up_to_2_wrappers(out, |x: TokenStream| index_call(x, "collections"@, "list_get"@, o, i)),
        _ => true,
    }
}

pub open spec fn slice_call(out: TokenStream, t: TokenStream, ty: IrType, a: Option<TokenStream>, b: Option<TokenStream>, c: Option<TokenStream>) -> bool {
    let s = ts_subs(out);
    // HELPER ( target , start , end , step ) in that order
    &&& s.len() == 4 && increasing(ts_cuts(out))
    &&& is_wrap(s[0], t) &&& opt_bound(s[1], a) &&& opt_bound(s[2], b) &&& opt_bound(s[3], c)
    &&& (is_str_type(strip_ref(ty)) ==> calls_helper(out, "strings"@, "str_slice"@))
    &&& (strip_ref(ty) is List ==> calls_helper(out, "collections"@, "list_slice"@))
    &&& (calls_helper(out, "strings"@, "str_slice"@) || calls_helper(out, "collections"@, "list_slice"@))
}
pub open spec fn slice_tokens_ok(out: TokenStream, t: TokenStream, ty: IrType, a: Option<TokenStream>, b: Option<TokenStream>, c: Option<TokenStream>) -> bool {
    up_to_2_wrappers(out, |x: TokenStream| slice_call(x, t, ty, a, b, c))
}

pub open spec fn list_get_mut_tokens_ok(out: TokenStream, o: TokenStream, i: TokenStream) -> bool {
    up_to_2_wrappers(out, |x: TokenStream| index_call(x, "collections"@, "list_get_mut"@, o, i))
}

/// literal tokens of a range call: harmless ones and the defaults 0 / 1
pub open spec fn range_tok(t: Seq<char>) -> bool { harmless_tok(t) || t == "0"@ || t == "1"@ }
pub open spec fn calls_range(out: TokenStream) -> bool {
    let l = ts_lits(out);
    &&& l.len() >= 6 && l.len() <= 24
    &&& l[0] == "incan_stdlib"@ && l[1] == "::"@ && l[2] == "iter"@ && l[3] == "::"@ && l[4] == "range"@ && l[5] == "("@
    &&& forall|i: int| 6 <= i < l.len() ==> range_tok(#[trigger] l[i])
    &&& forall|i: int| 0 <= i < ts_cuts(out).len() ==> #[trigger] ts_cuts(out)[i] >= 6
}
/// number of literal tokens `0` / `1` in the call
pub open spec fn lit_at(out: TokenStream, i: int, t: Seq<char>) -> bool { 0 <= i < ts_lits(out).len() && ts_lits(out)[i] == t }

/// Python's range(stop), range(start, stop), range(start, stop, step) (arguments that are not `a..b` syntax)
pub open spec fn range_tokens_ok(out: TokenStream, em: IrEmitter, args: Seq<TypedExpr>) -> bool {
    let s = ts_subs(out);
    let c = ts_cuts(out);
    if args.len() == 1 && !(args[0].kind is Range) {
        // range ( 0 , STOP , 1 )
        &&& calls_range(out) && s.len() == 1 && is_wrap(s[0], emitted(em, args[0]))
        &&& lit_at(out, 6, "0"@) && c[0] >= 8 && lit_at(out, ts_lits(out).len() - 2, "1"@) && c[0] <= ts_lits(out).len() - 3
    } else if args.len() == 2 {
        // range ( START , STOP , 1 )
        &&& calls_range(out) && s.len() == 2 && increasing(c) && is_wrap(s[0], emitted(em, args[0])) && is_wrap(s[1], emitted(em, args[1]))
        &&& lit_at(out, ts_lits(out).len() - 2, "1"@) && c[1] <= ts_lits(out).len() - 3
    } else if args.len() == 3 {
        // range ( START , STOP , STEP )
        calls_range(out) && s.len() == 3 && increasing(c)
        && is_wrap(s[0], emitted(em, args[0])) && is_wrap(s[1], emitted(em, args[1])) && is_wrap(s[2], emitted(em, args[2]))
    } else {
        true
    }
}
