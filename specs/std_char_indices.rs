// Trusted model of core::str::CharIndices (T3): `s.char_indices()` yields (byte_off(s, k), s[k]) for
// k = 0, 1, ..., then None. Verus has no specification for this iterator.
#[verifier::external_type_specification]
#[verifier::external_body]
pub struct ExCharIndices<'a>(CharIndices<'a>);

pub uninterp spec fn ci_seq(it: &CharIndices) -> Seq<char>;
pub uninterp spec fn ci_pos(it: &CharIndices) -> int;

pub assume_specification<'a>[str::char_indices](s: &'a str) -> (it: CharIndices<'a>)
    ensures ci_seq(&it) == s@, ci_pos(&it) == 0;

pub assume_specification<'a>[<CharIndices<'a> as Iterator>::next](it: &mut CharIndices<'a>) -> (r: Option<(usize, char)>)
    ensures
        ci_seq(final(it)) == ci_seq(old(it)),
        ci_pos(old(it)) < ci_seq(old(it)).len() ==> {
            &&& r == Some((byte_off(ci_seq(old(it)), ci_pos(old(it))) as usize, ci_seq(old(it))[ci_pos(old(it))]))
            &&& ci_pos(final(it)) == ci_pos(old(it)) + 1
        },
        ci_pos(old(it)) >= ci_seq(old(it)).len() ==> r.is_none() && ci_pos(final(it)) == ci_pos(old(it));

// char::len_utf16 (not used by /repo today; specified so that a column computed in UTF-16 units is
// decided rather than rejected as an unsupported construct). Trusted: T3.
pub assume_specification [char::len_utf16] (c: char) -> (r: usize)
    ensures r == (if (c as u32) < 0x10000 { 1usize } else { 2usize });
