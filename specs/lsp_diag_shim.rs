// Shim for the tower_lsp::lsp_types values a diagnostic is made of (external crate; trusted: plain data).
pub struct Url { _opaque: u8 }
impl Clone for Url { #[verifier::external_body] fn clone(&self) -> (r: Self) ensures r == *self { unimplemented!() } }
#[derive(PartialEq, Eq, Clone, Copy)]
pub struct DiagnosticSeverity(pub i32);
impl DiagnosticSeverity {
    pub const ERROR: DiagnosticSeverity = DiagnosticSeverity(1);
    pub const WARNING: DiagnosticSeverity = DiagnosticSeverity(2);
    pub const INFORMATION: DiagnosticSeverity = DiagnosticSeverity(3);
    pub const HINT: DiagnosticSeverity = DiagnosticSeverity(4);
}
pub struct Location { pub uri: Url, pub range: Range }
pub struct DiagnosticRelatedInformation { pub location: Location, pub message: String }
pub struct NumberOrString { _opaque: u8 }
pub struct CodeDescription { _opaque: u8 }
pub struct DiagnosticTag { _opaque: u8 }
pub struct JsonValue { _opaque: u8 }
pub struct Diagnostic {
    pub range: Range,
    pub severity: Option<DiagnosticSeverity>,
    pub code: Option<NumberOrString>,
    pub code_description: Option<CodeDescription>,
    pub source: Option<String>,
    pub message: String,
    pub related_information: Option<Vec<DiagnosticRelatedInformation>>,
    pub tags: Option<Vec<DiagnosticTag>>,
    pub data: Option<JsonValue>,
}
#[verifier::external_body]
pub fn __format_opaque() -> (r: String) { unimplemented!() }
