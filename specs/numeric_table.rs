// ---------------------------------------------------------------------------------------------
// specs/numeric_table.rs — the C07 statement as mathematics (no repository code).
//   `/` is always float; `+ - * // %` are float iff an operand is float; `**` is int only for
//   int ** non-negative int literal; comparisons are bool and may mix int and float.
// ---------------------------------------------------------------------------------------------

pub open spec fn is_arith(op: NumericOp) -> bool {
    op == NumericOp::Add || op == NumericOp::Sub || op == NumericOp::Mul || op == NumericOp::Div
        || op == NumericOp::FloorDiv || op == NumericOp::Mod || op == NumericOp::Pow
}

pub open spec fn is_cmp(op: NumericOp) -> bool {
    op == NumericOp::Eq || op == NumericOp::NotEq || op == NumericOp::Lt || op == NumericOp::LtEq
        || op == NumericOp::Gt || op == NumericOp::GtEq
}

/// The documented table. For comparison operators the value is the *operand coercion* type
/// (float iff an operand is float); their result type is bool.
pub open spec fn numeric_table(op: NumericOp, l: NumericTy, r: NumericTy, k: Option<PowExponentKind>) -> NumericTy {
    if op == NumericOp::Div {
        NumericTy::Float
    } else if op == NumericOp::Pow {
        if l == NumericTy::Int && r == NumericTy::Int && k == Some(PowExponentKind::NonNegativeIntLiteral) {
            NumericTy::Int
        } else {
            NumericTy::Float
        }
    } else {
        if l == NumericTy::Float || r == NumericTy::Float { NumericTy::Float } else { NumericTy::Int }
    }
}

/// Classification of a `**` exponent: float if the exponent expression is float; else by the sign
/// of an integer literal; else "variable".
pub open spec fn exp_kind(is_float: bool, lit: Option<i64>) -> PowExponentKind {
    if is_float {
        PowExponentKind::Float
    } else {
        match lit {
            Some(v) => if v >= 0 { PowExponentKind::NonNegativeIntLiteral } else { PowExponentKind::NegativeIntLiteral },
            None => PowExponentKind::Variable,
        }
    }
}

/// The like-named operator of the policy enum for each surface operator; None for the non-numeric ones.
pub open spec fn ast_num(op: ast::BinaryOp) -> Option<NumericOp> {
    match op {
        ast::BinaryOp::Add => Some(NumericOp::Add),
        ast::BinaryOp::Sub => Some(NumericOp::Sub),
        ast::BinaryOp::Mul => Some(NumericOp::Mul),
        ast::BinaryOp::Div => Some(NumericOp::Div),
        ast::BinaryOp::FloorDiv => Some(NumericOp::FloorDiv),
        ast::BinaryOp::Mod => Some(NumericOp::Mod),
        ast::BinaryOp::Pow => Some(NumericOp::Pow),
        ast::BinaryOp::Eq => Some(NumericOp::Eq),
        ast::BinaryOp::NotEq => Some(NumericOp::NotEq),
        ast::BinaryOp::Lt => Some(NumericOp::Lt),
        ast::BinaryOp::Gt => Some(NumericOp::Gt),
        ast::BinaryOp::LtEq => Some(NumericOp::LtEq),
        ast::BinaryOp::GtEq => Some(NumericOp::GtEq),
        _ => None,
    }
}

pub open spec fn ir_num(op: IrBinOp) -> Option<NumericOp> {
    match op {
        IrBinOp::Add => Some(NumericOp::Add),
        IrBinOp::Sub => Some(NumericOp::Sub),
        IrBinOp::Mul => Some(NumericOp::Mul),
        IrBinOp::Div => Some(NumericOp::Div),
        IrBinOp::FloorDiv => Some(NumericOp::FloorDiv),
        IrBinOp::Mod => Some(NumericOp::Mod),
        IrBinOp::Pow => Some(NumericOp::Pow),
        IrBinOp::Eq => Some(NumericOp::Eq),
        IrBinOp::Ne => Some(NumericOp::NotEq),
        IrBinOp::Lt => Some(NumericOp::Lt),
        IrBinOp::Gt => Some(NumericOp::Gt),
        IrBinOp::Le => Some(NumericOp::LtEq),
        IrBinOp::Ge => Some(NumericOp::GtEq),
        _ => None,
    }
}

pub open spec fn resolved_num(t: ResolvedType) -> Option<NumericTy> {
    match t { ResolvedType::Int => Some(NumericTy::Int), ResolvedType::Float => Some(NumericTy::Float), _ => None }
}

pub open spec fn irtype_num(t: IrType) -> Option<NumericTy> {
    match t { IrType::Int => Some(NumericTy::Int), IrType::Float => Some(NumericTy::Float), _ => None }
}

pub open spec fn ir_of(t: NumericTy) -> IrType {
    if t == NumericTy::Int { IrType::Int } else { IrType::Float }
}
