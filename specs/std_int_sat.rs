// Assumed contract for i64::saturating_add (trusted: T1); only needed once /repo uses it.
pub assume_specification [i64::saturating_add] (a: i64, b: i64) -> (r: i64)
    ensures r as int == (if a + b > i64::MAX { i64::MAX as int } else if a + b < i64::MIN { i64::MIN as int } else { a + b });
