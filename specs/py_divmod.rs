// ---------------------------------------------------------------------------------------------
// specs/py_divmod.rs — the C04 integer statement as mathematics (no repository code here).
//
// "a // b rounds toward negative infinity, a % b has the sign of the divisor and
//  a == (a // b) * b + a % b, exactly as in Python"
// ---------------------------------------------------------------------------------------------

/// The property statement, literally: q, r are Python's (a // b, a % b).
pub open spec fn is_py_divmod(a: int, b: int, q: int, r: int) -> bool {
    &&& a == q * b + r
    &&& (b > 0 ==> 0 <= r < b)
    &&& (b < 0 ==> b < r <= 0)
}

/// floor(a / b) over the mathematical integers (Verus `/` on int is Euclidean; for a positive
/// divisor that is the floor).
pub open spec fn py_floor(a: int, b: int) -> int {
    if b > 0 { a / b } else { (-a) / (-b) }
}

pub open spec fn py_rem(a: int, b: int) -> int {
    a - py_floor(a, b) * b
}

/// The closed forms satisfy the statement ...
pub proof fn lemma_py_spec_is_divmod(a: int, b: int)
    requires b != 0,
    ensures is_py_divmod(a, b, py_floor(a, b), py_rem(a, b)),
{
    if b > 0 {
        lemma_fundamental_div_mod(a, b);
        lemma_mod_bound(a, b);
        assert(a - (a / b) * b == a % b) by(nonlinear_arith) requires a == b * (a / b) + a % b;
    } else {
        let c = -b;
        lemma_fundamental_div_mod(-a, c);
        lemma_mod_bound(-a, c);
        assert(a - ((-a) / c) * b == -((-a) % c)) by(nonlinear_arith)
            requires -a == c * ((-a) / c) + (-a) % c, c == -b;
    }
}

/// ... and the statement determines (q, r) uniquely, so the closed forms are *the* Python answers.
pub proof fn lemma_py_divmod_unique(a: int, b: int, q1: int, r1: int, q2: int, r2: int)
    requires b != 0, is_py_divmod(a, b, q1, r1), is_py_divmod(a, b, q2, r2),
    ensures q1 == q2, r1 == r2,
{
    assert((q1 - q2) * b == r2 - r1) by(nonlinear_arith) requires a == q1 * b + r1, a == q2 * b + r2;
    if q1 != q2 {
        if b > 0 {
            assert((q1 - q2) * b >= b || (q1 - q2) * b <= -b) by(nonlinear_arith) requires q1 != q2, b > 0;
        } else {
            assert((q1 - q2) * b >= -b || (q1 - q2) * b <= b) by(nonlinear_arith) requires q1 != q2, b < 0;
        }
    }
}

pub proof fn lemma_py_divmod_characterises(a: int, b: int, q: int, r: int)
    requires b != 0, is_py_divmod(a, b, q, r),
    ensures q == py_floor(a, b), r == py_rem(a, b),
{
    lemma_py_spec_is_divmod(a, b);
    lemma_py_divmod_unique(a, b, q, r, py_floor(a, b), py_rem(a, b));
}

proof fn lemma_mod_neg_bound(x: int, m: int)
    requires m < 0,
    ensures 0 <= x % m < -m,
{
}

/// Rust's truncating `/` and `%` (vstd: rust_div / rust_rem) against Euclid.
pub proof fn lemma_rust_divrem(a: int, b: int)
    requires b != 0,
    ensures
        a == rust_div(a, b) * b + rust_rem(a, b),
        a >= 0 ==> 0 <= rust_rem(a, b),
        a <= 0 ==> rust_rem(a, b) <= 0,
        b > 0 ==> -b < rust_rem(a, b) < b,
        b < 0 ==> b < rust_rem(a, b) < -b,
        a >= 0 ==> -a <= rust_div(a, b) <= a,
        a <= 0 ==> a <= rust_div(a, b) <= -a,
        b == -1 ==> rust_div(a, b) == -a,
        (a < 0 && b != -1) ==> rust_div(a, b) < -a,
{
    let q = rust_div(a, b);
    let r = rust_rem(a, b);
    if a > 0 {
        lemma_fundamental_div_mod(a, b);
        if b > 0 { lemma_mod_pos_bound(a, b); } else { lemma_mod_neg_bound(a, b); }
    } else if a < 0 {
        lemma_fundamental_div_mod(-a, b);
        if b > 0 { lemma_mod_pos_bound(-a, b); } else { lemma_mod_neg_bound(-a, b); }
        assert(a == (-((-a) / b)) * b + (-((-a) % b))) by(nonlinear_arith)
            requires -a == b * ((-a) / b) + ((-a) % b);
    }
    assert(a == q * b + r);
    assert(a >= 0 ==> -a <= q <= a) by(nonlinear_arith)
        requires a == q * b + r, b != 0, a >= 0 ==> 0 <= r, b > 0 ==> -b < r < b, b < 0 ==> b < r < -b;
    assert(a <= 0 ==> a <= q <= -a) by(nonlinear_arith)
        requires a == q * b + r, b != 0, a <= 0 ==> r <= 0, b > 0 ==> -b < r < b, b < 0 ==> b < r < -b;
    assert(b == -1 ==> q == -a) by(nonlinear_arith)
        requires a == q * b + r, b < 0 ==> b < r < -b, a >= 0 ==> 0 <= r, a <= 0 ==> r <= 0;
    if a < 0 && b != -1 && q == -a {
        assert(false) by(nonlinear_arith)
            requires a == q * b + r, q == -a, a < 0, b != 0, b != -1, r <= 0, b > 0 ==> -b < r < b, b < 0 ==> b < r < -b;
    }
}

/// Everything a truncate-then-adjust kernel needs, as one prelude lemma: with q0 = trunc(a/b),
/// r0 = a - q0*b, Python's answers are (q0 - 1, r0 + b) when r0 and b have opposite signs and
/// (q0, r0) otherwise; and the adjusted values fit in i64 whenever a, b do (except MIN // -1).
pub proof fn lemma_trunc_to_floor(a: int, b: int)
    requires b != 0,
    ensures
        ({
            let q0 = rust_div(a, b);
            let r0 = rust_rem(a, b);
            let adj = (r0 > 0 && b < 0) || (r0 < 0 && b > 0);
            &&& adj ==> py_floor(a, b) == q0 - 1 && py_rem(a, b) == r0 + b
            &&& !adj ==> py_floor(a, b) == q0 && py_rem(a, b) == r0
            &&& (b > 0 ==> -b < r0 < b)
            &&& (b < 0 ==> b < r0 < -b)
            &&& (a >= 0 ==> -a <= q0 <= a)
            &&& (a <= 0 ==> a <= q0 <= -a)
            &&& (b == -1 ==> q0 == -a)
            &&& (a < 0 && b != -1 ==> q0 < -a)
            &&& (adj && a >= 0 ==> q0 - 1 >= -a - 1 && q0 <= 0)
            &&& (adj && a <= 0 ==> q0 - 1 >= a)
        }),
{
    let q0 = rust_div(a, b);
    let r0 = rust_rem(a, b);
    lemma_rust_divrem(a, b);
    let adj = (r0 > 0 && b < 0) || (r0 < 0 && b > 0);
    if adj {
        assert(a == (q0 - 1) * b + (r0 + b)) by(nonlinear_arith) requires a == q0 * b + r0;
        assert(is_py_divmod(a, b, q0 - 1, r0 + b));
        lemma_py_divmod_characterises(a, b, q0 - 1, r0 + b);
        // sign facts for the no-underflow argument of `q - 1`
        if a >= 0 {
            // r0 >= 0, so adj means r0 > 0 && b < 0: a = q0*b + r0 with 0 < r0 < -b  ==> q0 <= 0
            assert(q0 <= 0) by(nonlinear_arith) requires a == q0 * b + r0, b < 0, 0 < r0, r0 < -b, a >= 0;
        } else {
            // r0 < 0 && b > 0; q0 >= a and q0 != a unless b == 1 (then r0 == 0) -- need q0 - 1 >= a
            assert(q0 - 1 >= a) by(nonlinear_arith) requires a == q0 * b + r0, b > 0, -b < r0, r0 < 0, a < 0, a <= q0;
        }
    } else {
        assert(is_py_divmod(a, b, q0, r0));
        lemma_py_divmod_characterises(a, b, q0, r0);
    }
}

/// The same for kernels written with Euclidean division (`rem_euclid` / `div_euclid`): with
/// r0 = a mod b in [0, |b|) and q0 = (a - r0) / b, Python's answers are (q0, r0) for b > 0 and
/// (q0, r0) if r0 == 0 else (q0 - 1, r0 + b) for b < 0. Part of every kernel prelude so that an
/// equivalent rewrite in those terms still verifies.
pub proof fn lemma_euclid_to_floor(a: int, b: int)
    requires b != 0,
    ensures
        ({
            let q0 = a / b;
            let r0 = a % b;
            &&& a == q0 * b + r0
            &&& 0 <= r0
            &&& (b > 0 ==> r0 < b)
            &&& (b < 0 ==> r0 < -b)
            &&& (b > 0 || r0 == 0 ==> py_floor(a, b) == q0 && py_rem(a, b) == r0)
            &&& (b < 0 && r0 != 0 ==> py_floor(a, b) == q0 - 1 && py_rem(a, b) == r0 + b)
        }),
{
    let q0 = a / b;
    let r0 = a % b;
    lemma_fundamental_div_mod(a, b);
    assert(a == q0 * b + r0) by(nonlinear_arith) requires a == b * q0 + r0;
    if b > 0 {
        lemma_mod_bound(a, b);
        assert(is_py_divmod(a, b, q0, r0));
        lemma_py_divmod_characterises(a, b, q0, r0);
    } else {
        lemma_mod_neg_bound(a, b);
        if r0 == 0 {
            assert(is_py_divmod(a, b, q0, r0));
            lemma_py_divmod_characterises(a, b, q0, r0);
        } else {
            assert(a == (q0 - 1) * b + (r0 + b)) by(nonlinear_arith) requires a == q0 * b + r0;
            assert(is_py_divmod(a, b, q0 - 1, r0 + b));
            lemma_py_divmod_characterises(a, b, q0 - 1, r0 + b);
        }
    }
}
