// Shim for tower_lsp::lsp_types::{Position, Range} (external crate; trusted: plain data, two u32 fields /
// two Positions, `new` stores its arguments).
#[derive(PartialEq, Eq, Clone, Copy)]
pub struct Position { pub line: u32, pub character: u32 }
impl Position {
    pub fn new(line: u32, character: u32) -> (r: Position)
        ensures r.line == line, r.character == character,
    { Position { line, character } }
}
#[derive(PartialEq, Eq, Clone, Copy)]
pub struct Range { pub start: Position, pub end: Position }
impl Range {
    pub fn new(start: Position, end: Position) -> (r: Range)
        ensures r.start == start, r.end == end,
    { Range { start, end } }
}
pub open spec fn ppos(p: Position) -> (int, int) { (p.line as int, p.character as int) }
