// Assumed contracts for core integer methods that vstd does not specify (trusted: T1).
pub assume_specification [i64::wrapping_rem] (a: i64, b: i64) -> (r: i64)
    requires b != 0,
    ensures r as int == rust_rem(a as int, b as int);
