// Assumed contracts for core integer methods that vstd does not specify (trusted: T1).
pub assume_specification [i64::wrapping_rem] (a: i64, b: i64) -> (r: i64)
    requires b != 0,
    ensures r as int == rust_rem(a as int, b as int);

// Further i64 methods that vstd does not specify. /repo does not use them today; they are specified so
// that a rewrite of a kernel in terms of them is *decided* instead of rejected as an unsupported
// construct. `requires` = the std method's own panic condition. Verus `%` and `/` on int are Euclidean.
pub assume_specification [i64::rem_euclid] (a: i64, b: i64) -> (r: i64)
    requires b != 0, !(a == i64::MIN && b == -1),
    ensures r as int == (a as int) % (b as int);
pub assume_specification [i64::div_euclid] (a: i64, b: i64) -> (r: i64)
    requires b != 0, !(a == i64::MIN && b == -1),
    ensures r as int == (a as int) / (b as int);
pub assume_specification [i64::wrapping_div] (a: i64, b: i64) -> (r: i64)
    requires b != 0,
    ensures r as int == (if a == i64::MIN && b == -1 { i64::MIN as int } else { rust_div(a as int, b as int) });
pub assume_specification [i64::abs] (a: i64) -> (r: i64)
    requires a != i64::MIN,
    ensures r as int == (if a < 0 { -(a as int) } else { a as int });
pub assume_specification [i64::signum] (a: i64) -> (r: i64)
    ensures r as int == (if a < 0 { -1int } else if a == 0 { 0int } else { 1int });
