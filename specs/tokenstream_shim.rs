// ---------------------------------------------------------------------------------------------
// specs/tokenstream_shim.rs — stand-in for proc_macro2::TokenStream (external crate) and `quote!`
// without interpolation (R12). Trusted model, no repository code.
// ---------------------------------------------------------------------------------------------
/// Shim for proc_macro2::TokenStream (external crate, not available to the verifier): an opaque value
/// with a textual view. `__quote("..")` stands for `quote! { .. }` (R12) and carries the literal tokens.
pub struct TokenStream { _opaque: u8 }
pub uninterp spec fn ts_text(t: TokenStream) -> Seq<char>;
#[verifier::external_body]
pub fn __quote(s: &'static str) -> (r: TokenStream)
    ensures ts_text(r) == s@,
{ unimplemented!() }

// Box::as_ref (trusted: T6-like; returns the boxed value)
pub assume_specification<T: ?Sized, A: core::alloc::Allocator> [<Box<T, A> as core::convert::AsRef<T>>::as_ref] (b: &Box<T, A>) -> (r: &T)
    ensures r == &**b;

