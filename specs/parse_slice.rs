// ---------------------------------------------------------------------------------------------
// specs/parse_slice.rs — Python's subscript grammar over a token sequence (C05, no repository code):
//     subscript ::= expression | [lower] ":" [upper] [ ":" [stride] ]
// where two adjacent colons (an omitted upper bound) reach the parser as ONE token `::` (the lexer's
// longest match), which therefore stands for `":" ":"`.
// `expr_at(ts, p)` is the expression that starts at token p, `expr_end(ts, p)` the position after it and
// `expr_ok(ts, p)` whether one parses there (the recursive expression parser, uninterpreted).
// ---------------------------------------------------------------------------------------------
pub uninterp spec fn expr_ok(ts: Seq<TokenKind>, p: int) -> bool;
pub uninterp spec fn expr_at(ts: Seq<TokenKind>, p: int) -> Spanned<Expr>;
pub uninterp spec fn expr_end(ts: Seq<TokenKind>, p: int) -> int;

pub open spec fn is_punct(t: TokenKind, id: PunctuationId) -> bool {
    t matches TokenKind::Punctuation(p) && p == id
}
pub open spec fn variant_ordinal(k: TokenKind) -> u8 {
    match k {
        TokenKind::Keyword(_) => 0, TokenKind::Operator(_) => 1, TokenKind::Punctuation(_) => 2, TokenKind::Ident(_) => 3,
        TokenKind::Int(_) => 4, TokenKind::Float(_) => 5, TokenKind::String(_) => 6, TokenKind::Bytes(_) => 7,
        TokenKind::FString(_) => 8, TokenKind::Newline => 9, TokenKind::Indent => 10, TokenKind::Dedent => 11,
        TokenKind::Ellipsis => 12, TokenKind::Eof => 13,
    }
}
pub open spec fn colon(ts: Seq<TokenKind>, p: int) -> bool { is_punct(ts[p], PunctuationId::Colon) }
pub open spec fn colon2(ts: Seq<TokenKind>, p: int) -> bool { is_punct(ts[p], PunctuationId::ColonColon) }
pub open spec fn rbracket(ts: Seq<TokenKind>, p: int) -> bool { is_punct(ts[p], PunctuationId::RBracket) }

/// after the first ":" (or the "::") at position p: ( upper, stride, position after the subscript )
pub open spec fn slice_rest(ts: Seq<TokenKind>, p: int) -> (Option<Spanned<Expr>>, Option<Spanned<Expr>>, int) {
    if colon2(ts, p) {
        // "::" = ":" ":" with the upper bound omitted
        let q3 = p + 1;
        if !rbracket(ts, q3) { (None::<Spanned<Expr>>, Some(expr_at(ts, q3)), expr_end(ts, q3)) } else { (None::<Spanned<Expr>>, None::<Spanned<Expr>>, q3) }
    } else {
        let q1 = p + 1;
        let (upper, q2) = if !rbracket(ts, q1) && !colon(ts, q1) { (Some(expr_at(ts, q1)), expr_end(ts, q1)) } else { (None::<Spanned<Expr>>, q1) };
        if colon(ts, q2) {
            let q3 = q2 + 1;
            if !rbracket(ts, q3) { (upper, Some(expr_at(ts, q3)), expr_end(ts, q3)) } else { (upper, None::<Spanned<Expr>>, q3) }
        } else {
            (upper, None::<Spanned<Expr>>, q2)
        }
    }
}
/// ... and whether every expression in it parses
pub open spec fn slice_rest_ok(ts: Seq<TokenKind>, p: int) -> bool {
    if colon2(ts, p) {
        !rbracket(ts, p + 1) ==> expr_ok(ts, p + 1)
    } else {
        let q1 = p + 1;
        let has_upper = !rbracket(ts, q1) && !colon(ts, q1);
        let q2 = if has_upper { expr_end(ts, q1) } else { q1 };
        (has_upper ==> expr_ok(ts, q1))
        && ((colon(ts, q2) && !rbracket(ts, q2 + 1)) ==> expr_ok(ts, q2 + 1))
    }
}

pub enum Subscript { Index(Spanned<Expr>), Slice(Option<Spanned<Expr>>, Option<Spanned<Expr>>, Option<Spanned<Expr>>) }

/// the subscript that starts at position p (just after "["), and the position after it
pub open spec fn subscript(ts: Seq<TokenKind>, p: int) -> (Subscript, int) {
    if colon(ts, p) || colon2(ts, p) {
        let (u, s, q) = slice_rest(ts, p);
        (Subscript::Slice(None, u, s), q)
    } else {
        let q = expr_end(ts, p);
        if colon(ts, q) || colon2(ts, q) {
            let (u, s, q2) = slice_rest(ts, q);
            (Subscript::Slice(Some(expr_at(ts, p)), u, s), q2)
        } else {
            (Subscript::Index(expr_at(ts, p)), q)
        }
    }
}
pub open spec fn subscript_ok(ts: Seq<TokenKind>, p: int) -> bool {
    if colon(ts, p) || colon2(ts, p) { slice_rest_ok(ts, p) }
    else if rbracket(ts, p) { false }
    else { expr_ok(ts, p) && ((colon(ts, expr_end(ts, p)) || colon2(ts, expr_end(ts, p))) ==> slice_rest_ok(ts, expr_end(ts, p))) }
}

pub open spec fn unbox_opt(o: Option<Box<Spanned<Expr>>>) -> Option<Spanned<Expr>> {
    match o { Some(b) => Some(*b), None => None }
}
pub open spec fn box_opt(o: Option<Spanned<Expr>>) -> Option<Box<Spanned<Expr>>> {
    match o { Some(e) => Some(Box::new(e)), None => None }
}
pub open spec fn sub_view(v: IndexOrSlice) -> Subscript {
    match v {
        IndexOrSlice::Index(e) => Subscript::Index(e),
        IndexOrSlice::Slice(sl) => Subscript::Slice(unbox_opt(sl.start), unbox_opt(sl.end), unbox_opt(sl.step)),
    }
}

impl<'a> Parser<'a> {
    /// the token kinds of the stream
    pub open spec fn kinds(&self) -> Seq<TokenKind> { self.tokens@.map_values(|t: Token| t.kind) }
    pub open spec fn cur(&self) -> TokenKind { self.tokens@[self.pos as int].kind }
    /// invariant of the parser state: the cursor is on a token, the stream ends with Eof, and Eof appears nowhere else
    pub open spec fn wf(&self) -> bool {
        &&& 0 < self.tokens@.len() <= usize::MAX
        &&& (self.pos as int) < self.tokens@.len()
        &&& self.tokens@[self.tokens@.len() - 1].kind is Eof
        &&& forall|i: int| 0 <= i < self.tokens@.len() - 1 ==> !(#[trigger] self.tokens@[i].kind is Eof)
    }
}
