// Assumed contracts for core string/iterator methods that vstd does not specify (trusted: T2).
pub assume_specification<'a>[<Chars<'a> as Iterator>::count](it: Chars<'a>) -> (r: usize)
    ensures r == it.remaining().len();

/// R10: `it.nth(n)` (a provided Iterator method, which Verus cannot give an assume_specification).
#[verifier::external_body]
pub fn __iter_nth<'a>(it: Chars<'a>, n: usize) -> (r: Option<char>)
    ensures r == (if n < it.remaining().len() { Some(it.remaining()[n as int]) } else { None::<char> }),
{ let mut it = it; it.nth(n) }

// vstd specifies the blanket ToString::to_string through the uninterpreted predicate
// vstd::string::to_string_from_display_ensures; the one trusted fact added is what Display for char prints.
pub broadcast axiom fn axiom_display_char(c: &char, res: String)
    ensures #[trigger] vstd::string::to_string_from_display_ensures::<char>(c, res) ==> res@ == seq![*c];
