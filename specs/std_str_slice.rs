// R6: `&s[a..b]`, `s[a..]` and `s.find(c)` on `str` (Verus has no Index<Range> for str). The wrappers'
// preconditions are exactly std's panic conditions (both ends on character boundaries, a <= b <= len), so
// proving a call's `requires` IS proving that the slice cannot panic. Their `ensures` is std's documented
// behaviour (trusted: T3).
pub open spec fn is_boundary(s: Seq<char>, b: int) -> bool {
    exists|k: int| 0 <= k <= s.len() && #[trigger] byte_off(s, k) == b
}

#[verifier::external_body]
pub fn str_from<'a>(s: &'a str, a: usize) -> (r: &'a str)
    requires is_boundary(s@, a as int),
    ensures forall|k: int| 0 <= k <= s@.len() && #[trigger] byte_off(s@, k) == a ==> r@ == s@.subrange(k, s@.len() as int),
{ &s[a..] }

#[verifier::external_body]
pub fn str_range<'a>(s: &'a str, a: usize, b: usize) -> (r: &'a str)
    requires is_boundary(s@, a as int), is_boundary(s@, b as int), a <= b,
    ensures forall|k: int, m: int| 0 <= k <= m <= s@.len() && #[trigger] byte_off(s@, k) == a && #[trigger] byte_off(s@, m) == b ==> r@ == s@.subrange(k, m),
{ &s[a..b] }

#[verifier::external_body]
pub fn str_find_char(s: &str, c: char) -> (r: Option<usize>)
    ensures
        match r {
            Some(i) => exists|k: int| 0 <= k < s@.len() && #[trigger] byte_off(s@, k) == i && s@[k] == c && (forall|j: int| 0 <= j < k ==> s@[j] != c),
            None => forall|j: int| 0 <= j < s@.len() ==> s@[j] != c,
        },
{ s.find(c) }

/// byte offsets inside a suffix are byte offsets of the whole, shifted
pub proof fn lemma_byte_off_subrange(s: Seq<char>, a: int, k: int)
    requires 0 <= a <= s.len(), 0 <= k <= s.len() - a,
    ensures byte_off(s.subrange(a, s.len() as int), k) == byte_off(s, a + k) - byte_off(s, a),
    decreases k
{
    if k > 0 {
        lemma_byte_off_subrange(s, a, k - 1);
        assert(s.subrange(a, s.len() as int)[k - 1] == s[a + k - 1]);
    }
}
