// ---------------------------------------------------------------------------------------------
// specs/binop_plan.rs — what the emitter must plan for a numeric binary operation (C04 + C07):
// result kind and operand promotions from the documented table, and the runtime helper that
// implements the documented semantics of `/`, `//`, `%` (no repository code).
// ---------------------------------------------------------------------------------------------

pub open spec fn stringish(t: IrType) -> bool {
    match t {
        IrType::String => true,
        IrType::Ref(inner) => *inner is String,
        IrType::RefMut(inner) => *inner is String,
        _ => false,
    }
}

/// the helper the documentation names for each operator / result kind
pub open spec fn helper_path(op: NumericOp, t: NumericTy) -> Seq<char> {
    if op == NumericOp::Mod {
        if t == NumericTy::Int { "incan_stdlib :: num :: py_mod_i64"@ } else { "incan_stdlib :: num :: py_mod_f64"@ }
    } else if op == NumericOp::FloorDiv {
        if t == NumericTy::Int { "incan_stdlib :: num :: py_floor_div_i64"@ } else { "incan_stdlib :: num :: py_floor_div_f64"@ }
    } else {
        "incan_stdlib :: num :: py_div"@
    }
}

/// the helper for an operator given the planned result type: typed entry points for int / float, the
/// generic entry point (which dispatches on the run-time operand types) otherwise
pub open spec fn helper_for_type(op: NumericOp, t: IrType) -> Seq<char> {
    if op == NumericOp::Mod {
        match t { IrType::Int => "incan_stdlib :: num :: py_mod_i64"@, IrType::Float => "incan_stdlib :: num :: py_mod_f64"@, _ => "incan_stdlib :: num :: py_mod"@ }
    } else if op == NumericOp::FloorDiv {
        match t { IrType::Int => "incan_stdlib :: num :: py_floor_div_i64"@, IrType::Float => "incan_stdlib :: num :: py_floor_div_f64"@, _ => "incan_stdlib :: num :: py_floor_div"@ }
    } else {
        "incan_stdlib :: num :: py_div"@
    }
}

/// `/`, `//`, `%` ALWAYS go through the runtime helper of the same operator (that is where the documented
/// semantics and the zero check live), whatever the static operand types are
pub open spec fn division_plan_ok(plan: BinOpPlan, op: IrBinOp) -> bool {
    let nop = ir_num(op)->0;
    (nop == NumericOp::Div || nop == NumericOp::FloorDiv || nop == NumericOp::Mod) ==>
        (plan.emit matches BinOpEmitKind::StdlibCall { path } && ts_text(path) == helper_for_type(nop, plan.result_ty))
}

pub open spec fn infix_symbol(op: IrBinOp) -> Seq<char> {
    match op {
        IrBinOp::Add => "+"@, IrBinOp::Sub => "-"@, IrBinOp::Mul => "*"@, IrBinOp::Div => "/"@, IrBinOp::FloorDiv => "/"@,
        IrBinOp::Mod => "%"@, IrBinOp::Pow => ". pow"@, IrBinOp::Eq => "=="@, IrBinOp::Ne => "!="@, IrBinOp::Lt => "<"@,
        IrBinOp::Le => "<="@, IrBinOp::Gt => ">"@, IrBinOp::Ge => ">="@, IrBinOp::And => "&&"@, IrBinOp::Or => "||"@,
        IrBinOp::BitAnd => "&"@, IrBinOp::BitOr => "|"@, IrBinOp::BitXor => "^"@, IrBinOp::Shl => "<<"@, IrBinOp::Shr => ">>"@,
    }
}

pub open spec fn conv_of(promote: bool) -> NumericConversion {
    if promote { NumericConversion::ToFloat } else { NumericConversion::None }
}

/// the plan for `left op right` when both operands are int/float
pub open spec fn numeric_plan_ok(plan: BinOpPlan, op: IrBinOp, left: TypedExpr, right: TypedExpr) -> bool {
    let nop = ir_num(op)->0;
    let l = irtype_num(left.ty)->0;
    let r = irtype_num(right.ty)->0;
    let k = if op is Pow { Some(exp_kind(right.ty is Float, ir_int_literal(right))) } else { None::<PowExponentKind> };
    let t = numeric_table(nop, l, r, k);
    // the kind of the computed value is the table's kind ...
    &&& plan.result_ty == ir_of(t)
    // ... because exactly the int operands of a float operation are promoted
    &&& plan.lhs_conv == conv_of(t == NumericTy::Float && l == NumericTy::Int)
    &&& plan.rhs_conv == conv_of(t == NumericTy::Float && r == NumericTy::Int)
    // `/`, `//`, `%` go through the runtime helper that implements the documented semantics (incl. the zero check)
    &&& (nop == NumericOp::Div || nop == NumericOp::FloorDiv || nop == NumericOp::Mod ==>
            (plan.emit matches BinOpEmitKind::StdlibCall { path } && ts_text(path) == helper_path(nop, t)))
    &&& (nop == NumericOp::Pow ==> (plan.emit matches BinOpEmitKind::Pow { result_is_int } && result_is_int == (t == NumericTy::Int)))
    &&& (nop != NumericOp::Div && nop != NumericOp::FloorDiv && nop != NumericOp::Mod && nop != NumericOp::Pow ==>
            (plan.emit matches BinOpEmitKind::Infix { token } && ts_text(token) == infix_symbol(op)))
}
