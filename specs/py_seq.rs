// ---------------------------------------------------------------------------------------------
// specs/py_seq.rs — Python's sequence indexing, slicing and range as mathematics (no repository code).
// Sources: the property statement; Python Language Reference 3.2 "Sequences" (s[i], s[i:j:k]);
// CPython PySlice_AdjustIndices; the documentation of range().
// ---------------------------------------------------------------------------------------------

pub open spec fn opt_int(o: Option<i64>) -> Option<int> {
    match o { Some(v) => Some(v as int), None => None }
}

/// s[i]: "If i is negative, the index is relative to the end: len(s) + i is substituted."
/// None = IndexError.
pub open spec fn py_index(len: int, i: int) -> Option<int> {
    if i >= 0 {
        if i < len { Some(i) } else { None }
    } else {
        if i + len >= 0 { Some(i + len) } else { None }
    }
}

/// Normalisation of one slice bound (PySlice_AdjustIndices).
pub open spec fn py_adjust_bound(len: int, b: Option<int>, step: int, is_start: bool) -> int {
    match b {
        None => if step > 0 { if is_start { 0 } else { len } } else { if is_start { len - 1 } else { -1 } },
        Some(v) => {
            if v < 0 {
                let w = v + len;
                if w < 0 { if step < 0 { -1 } else { 0 } } else { w }
            } else {
                if v >= len { if step < 0 { len - 1 } else { len } } else { v }
            }
        }
    }
}

/// "the items with index i, i+k, i+2k, ... stopping when j is reached (but never including j)"
pub open spec fn py_take<T>(s: Seq<T>, i: int, j: int, k: int) -> Seq<T>
    decreases (if k > 0 && i < j { j - i } else if k < 0 && i > j { i - j } else { 0 })
{
    if k > 0 && i < j { seq![s[i]] + py_take(s, i + k, j, k) }
    else if k < 0 && i > j { seq![s[i]] + py_take(s, i + k, j, k) }
    else { Seq::empty() }
}

pub open spec fn py_slice<T>(s: Seq<T>, start: Option<int>, end: Option<int>, step: int) -> Seq<T> {
    py_take(s, py_adjust_bound(s.len() as int, start, step, true),
               py_adjust_bound(s.len() as int, end, step, false), step)
}

pub open spec fn step_or_1(step: Option<i64>) -> int {
    match step { Some(v) => v as int, None => 1 }
}

pub proof fn lemma_py_take_step<T>(s: Seq<T>, i: int, j: int, k: int)
    requires k != 0,
    ensures
        (k > 0 && i < j) || (k < 0 && i > j) ==> py_take(s, i, j, k) == seq![s[i]] + py_take(s, i + k, j, k),
        !((k > 0 && i < j) || (k < 0 && i > j)) ==> py_take(s, i, j, k) == Seq::<T>::empty(),
{
}

pub proof fn lemma_py_take_done<T>(s: Seq<T>, j: int, k: int)
    requires k != 0,
    ensures forall|x: int| (k > 0 && x >= j) || (k < 0 && x <= j) ==> #[trigger] py_take(s, x, j, k) == Seq::<T>::empty(),
{
}

/// Closed form tying the recursive definition to the Reference's formula:
/// the n-th item is s[i + n*k] and there are ceil((j - i) / k) of them.
pub open spec fn py_take_len(i: int, j: int, k: int) -> int {
    if k > 0 && i < j { (j - i + k - 1) / k } else if k < 0 && i > j { (i - j + (-k) - 1) / (-k) } else { 0 }
}

pub proof fn lemma_py_take_closed_form<T>(s: Seq<T>, i: int, j: int, k: int)
    requires k != 0,
    ensures
        py_take(s, i, j, k).len() == py_take_len(i, j, k),
        forall|n: int| 0 <= n < py_take_len(i, j, k) ==> #[trigger] py_take(s, i, j, k)[n] == s[i + n * k],
    decreases (if k > 0 && i < j { j - i } else if k < 0 && i > j { i - j } else { 0 }),
{
    if (k > 0 && i < j) || (k < 0 && i > j) {
        lemma_py_take_closed_form(s, i + k, j, k);
        let rest = py_take(s, i + k, j, k);
        let all = py_take(s, i, j, k);
        assert(all == seq![s[i]] + rest);
        if k > 0 {
            // ceil((j-i)/k) == 1 + ceil((j-i-k)/k) when i < j
            assert(py_take_len(i, j, k) == 1 + py_take_len(i + k, j, k)) by {
                if i + k < j {
                    vstd::arithmetic::div_mod::lemma_div_plus_one(j - i - 1, k);
                    assert((j - i + k - 1) == (j - i - 1) + k);
                    assert((j - (i + k) + k - 1) == j - i - 1);
                } else {
                    // 0 < j - i <= k  ==> ceil == 1
                    vstd::arithmetic::div_mod::lemma_div_plus_one(j - i - 1, k);
                    assert((j - i - 1) / k == 0) by(nonlinear_arith) requires 0 <= j - i - 1 < k;
                    assert((j - i + k - 1) == (j - i - 1) + k);
                }
            }
        } else {
            let m = -k;
            assert(py_take_len(i, j, k) == 1 + py_take_len(i + k, j, k)) by {
                vstd::arithmetic::div_mod::lemma_div_plus_one(i - j - 1, m);
                assert((i - j + m - 1) == (i - j - 1) + m);
                if i + k > j {
                    assert(((i + k) - j + m - 1) == i - j - 1);
                } else {
                    assert((i - j - 1) / m == 0) by(nonlinear_arith) requires 0 <= i - j - 1 < m;
                }
            }
        }
        assert forall|n: int| 0 <= n < py_take_len(i, j, k) implies #[trigger] all[n] == s[i + n * k] by {
            if n == 0 {
                assert(i + 0 * k == i);
            } else {
                assert(all[n] == rest[n - 1]);
                assert(rest[n - 1] == s[(i + k) + (n - 1) * k]);
                assert((i + k) + (n - 1) * k == i + n * k) by(nonlinear_arith);
            }
        }
    }
}

/// One loop iteration of a slice copy, element-wise (used where elements are cloned, so that only
/// `cloned(src, dst)` — not equality — is known about each output element).
pub proof fn lemma_take_advance<T>(s: Seq<T>, total: Seq<T>, n0: int, i: int, j: int, k: int)
    requires
        k != 0, 0 <= n0 <= total.len(),
        total.subrange(n0, total.len() as int) == py_take(s, i, j, k),
        (k > 0 && i < j) || (k < 0 && i > j),
    ensures
        n0 < total.len(),
        total[n0] == s[i],
        total.subrange(n0 + 1, total.len() as int) == py_take(s, i + k, j, k),
{
    lemma_py_take_step(s, i, j, k);
    let rest = total.subrange(n0, total.len() as int);
    assert(py_take(s, i, j, k).len() >= 1);
    assert(rest.len() == total.len() - n0);
    assert(rest[0] == s[i]);
    assert(total.subrange(n0 + 1, total.len() as int) == rest.drop_first());
    assert((seq![s[i]] + py_take(s, i + k, j, k)).drop_first() == py_take(s, i + k, j, k));
}

/// element-wise "is a clone of"
pub open spec fn cloned_seq<T: Clone>(src: Seq<T>, dst: Seq<T>) -> bool {
    src.len() == dst.len() && forall|n: int| 0 <= n < src.len() ==> cloned(#[trigger] src[n], dst[n])
}

/// range(a, b, c) over the mathematical integers (no machine overflow in the specification).
pub open spec fn range_seq(cur: int, end: int, step: int) -> Seq<int>
    decreases (if step > 0 && cur < end { end - cur } else if step < 0 && cur > end { cur - end } else { 0 })
{
    if step > 0 && cur < end { seq![cur] + range_seq(cur + step, end, step) }
    else if step < 0 && cur > end { seq![cur] + range_seq(cur + step, end, step) }
    else { Seq::empty() }
}

pub proof fn lemma_range_next(cur: int, end: int, step: int)
    requires step != 0,
    ensures
        (step > 0 && cur < end) || (step < 0 && cur > end) ==> range_seq(cur, end, step) == seq![cur] + range_seq(cur + step, end, step),
        !((step > 0 && cur < end) || (step < 0 && cur > end)) ==> range_seq(cur, end, step) == Seq::<int>::empty(),
        forall|x: int| (step > 0 && x >= end) || (step < 0 && x <= end) ==> #[trigger] range_seq(x, end, step) == Seq::<int>::empty(),
{
}
