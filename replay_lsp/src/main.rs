//! Native replay driver for C19: the REAL position/offset conversions of the `incan` crate
//! (`--features lsp`) and the terminal renderer of `incan_syntax` (default features).
//!   verif_replay_lsp call|search <oracle> ...    (same protocol as verif_replay)
use serde_json::{json, Value};
use std::panic::{catch_unwind, AssertUnwindSafe};

fn guarded<T>(f: impl FnOnce() -> T) -> Result<T, String> {
    match catch_unwind(AssertUnwindSafe(f)) {
        Ok(v) => Ok(v),
        Err(e) => Err(e.downcast_ref::<String>().cloned().or_else(|| e.downcast_ref::<&str>().map(|s| s.to_string())).unwrap_or("<panic>".into())),
    }
}

// ---- spec functions (specs/utf8_pos.rs), executable
fn boundaries(s: &str) -> Vec<usize> { let mut v: Vec<usize> = s.char_indices().map(|(i, _)| i).collect(); v.push(s.len()); v }
#[allow(dead_code)]
fn pos_of(s: &str, k: usize) -> (u64, u64) {
    let (mut l, mut c) = (0u64, 0u64);
    for ch in s.chars().take(k) { if ch == '\n' { l += 1; c = 0 } else { c += 1 } }
    (l, c)
}
fn first_boundary_at_or_after(s: &str, o: usize) -> usize {
    let o = o.min(s.len());
    boundaries(s).iter().position(|&b| b >= o).unwrap()
}

fn gs(v: &Value, k: &str) -> String { v[k].as_str().unwrap().to_string() }
fn gu(v: &Value, k: &str) -> usize { v[k].as_u64().map(|x| x as usize).unwrap_or_else(|| v[k].as_str().unwrap().parse().unwrap()) }
fn verdict(ok: bool, observed: Value, expected: Value, args: &Value, what: &str) -> Value {
    json!({"ok": ok, "observed": observed, "expected": expected, "args": args, "what": what})
}

fn call(oracle: &str, v: &Value) -> Value {
    match oracle {
        #[cfg(feature = "lsp")]
        "lsp::offset_to_position" => {
            use incan::lsp::diagnostics::offset_to_position;
            let (s, o) = (gs(v, "s"), gu(v, "offset"));
            let got = guarded(|| { let p = offset_to_position(&s, o); (p.line as u64, p.character as u64) });
            let e = pos_of(&s, first_boundary_at_or_after(&s, o));
            verdict(matches!(&got, Ok(g) if *g == e), match &got { Ok(g) => json!({"line": g.0, "character": g.1}), Err(m) => json!({"panicked": m}) },
                    json!({"line": e.0, "character": e.1}), v, "offset -> position agrees with counting newlines and characters")
        }
        #[cfg(feature = "lsp")]
        "lsp::round_trip" => {
            use incan::lsp::diagnostics::{offset_to_position, position_to_offset};
            let (s, k) = (gs(v, "s"), gu(v, "k"));
            let b = boundaries(&s);
            let k = k.min(b.len() - 1);
            let o = b[k];
            let got = guarded(|| { let p = offset_to_position(&s, o); (p.line, p.character, position_to_offset(&s, p)) });
            let ok = matches!(&got, Ok((_, _, Some(back))) if *back == o);
            verdict(ok, match &got { Ok((l, c, back)) => json!({"position": [l, c], "back": back}), Err(m) => json!({"panicked": m}) },
                    json!({"back": o, "position": [pos_of(&s, k).0, pos_of(&s, k).1]}), &json!({"s": s, "k": k, "offset": o}), "boundary offset -> position -> offset round trip")
        }
        #[cfg(feature = "lsp")]
        "lsp::position_to_offset" => {
            use incan::lsp::diagnostics::{offset_to_position, position_to_offset};
            let (s, k) = (gs(v, "s"), gu(v, "k"));
            let b = boundaries(&s);
            let k = k.min(b.len() - 1);
            let (l, c) = pos_of(&s, k);
            let got = guarded(|| { let mut p = offset_to_position("", 0); p.line = l as u32; p.character = c as u32; position_to_offset(&s, p) });
            verdict(matches!(&got, Ok(Some(o)) if *o == b[k]), match &got { Ok(o) => json!({"returned": o}), Err(m) => json!({"panicked": m}) },
                    json!({"returned": b[k]}), &json!({"s": s, "k": k, "line": l, "character": c}), "position of boundary k -> byte offset of boundary k")
        }
        #[cfg(feature = "lsp")]
        "lsp::monotone" => {
            use incan::lsp::diagnostics::offset_to_position;
            let (s, k) = (gs(v, "s"), gu(v, "k"));
            let b = boundaries(&s);
            if b.len() < 2 { return verdict(true, json!(null), json!(null), v, "too short"); }
            let k = k.min(b.len() - 2);
            let got = guarded(|| { let p = offset_to_position(&s, b[k]); let q = offset_to_position(&s, b[k + 1]); ((p.line, p.character), (q.line, q.character)) });
            verdict(matches!(&got, Ok((p, q)) if p < q), match &got { Ok((p, q)) => json!({"p": [p.0, p.1], "q": [q.0, q.1]}), Err(m) => json!({"panicked": m}) },
                    json!("p < q lexicographically"), &json!({"s": s, "k": k, "o1": b[k], "o2": b[k + 1]}), "positions strictly monotone in boundary offsets")
        }
        #[cfg(feature = "lsp")]
        "lsp::span_to_range" => {
            use incan::lsp::diagnostics::span_to_range;
            let (s, a, b) = (gs(v, "s"), gu(v, "start"), gu(v, "end"));
            if a == usize::MAX { return verdict(true, json!(null), json!(null), v, "start == usize::MAX is outside the stated input invariant (A3)"); }
            let got = guarded(|| { let r = span_to_range(&s, a, b); ((r.start.line as u64, r.start.character as u64), (r.end.line as u64, r.end.character as u64)) });
            let doc_end = pos_of(&s, s.chars().count());
            let es = pos_of(&s, first_boundary_at_or_after(&s, a));
            let ok = matches!(&got, Ok((st, en)) if st <= en && *en <= doc_end && *st == es);
            verdict(ok, match &got { Ok((st, en)) => json!({"start": [st.0, st.1], "end": [en.0, en.1]}), Err(m) => json!({"panicked": m}) },
                    json!({"start": [es.0, es.1], "end": "start <= end <= end of document", "doc_end": [doc_end.0, doc_end.1]}), v, "range lies inside the document with start <= end")
        }
        "syntax::get_line_info" => {
            use incan_syntax::diagnostics::{format_error, CompileError};
            use incan_syntax::ast::Span;
            let (s, a, b) = (gs(v, "s"), gu(v, "start"), gu(v, "end"));
            let got = guarded(|| format_error("f", &s, &CompileError::new("m".to_string(), Span { start: a, end: b })));
            let o = a.min(s.len());
            // expected by counting newlines and characters
            let k = first_boundary_at_or_after(&s, o);
            let before: String = s.chars().take(k).collect();
            let line = 1 + before.matches('\n').count();
            let line_start_chars = before.rfind('\n').map(|i| before[..i + 1].chars().count()).unwrap_or(0);
            let col_chars = k - line_start_chars + 1;
            let line_start_bytes = before.rfind('\n').map(|i| i + 1).unwrap_or(0);
            let col_bytes = o - line_start_bytes + 1;
            let full_line: &str = { let rest = &s[line_start_bytes..]; &rest[..rest.find('\n').unwrap_or(rest.len())] };
            match &got {
                Err(m) => verdict(false, json!({"panicked": m}), json!({"line": line, "col": col_chars}), v, "terminal renderer must be total"),
                Ok(text) => {
                    let hdr = text.lines().find(|l| l.contains("-->")).unwrap_or("");
                    let loc = hdr.rsplit(' ').next().unwrap_or("");
                    let parts: Vec<&str> = loc.rsplitn(3, ':').collect();
                    let (oc, ol) = (parts.get(0).and_then(|x| x.parse::<usize>().ok()), parts.get(1).and_then(|x| x.parse::<usize>().ok()));
                    let src_line = text.lines().nth(3).map(|l| l.to_string()).unwrap_or_default();
                    let line_ok = src_line.ends_with(full_line) ;
                    let ok = ol == Some(line) && oc == Some(col_chars);
                    let mut r = verdict(ok, json!({"line": ol, "col": oc, "source_line_shown_ok": line_ok}), json!({"line": line, "col": col_chars, "col_if_counting_bytes": col_bytes}), v,
                                        "terminal line:col agree with counting newlines and characters");
                    if !ok && ol == Some(line) && oc == Some(col_bytes) && col_bytes != col_chars { r["class"] = json!("C19-terminal-column-counts-bytes"); }
                    r
                }
            }
        }
        _ => json!({"error": format!("unknown oracle {} (built without --features lsp?)", oracle)}),
    }
}

struct Rng(u64);
impl Rng { fn next(&mut self) -> u64 { self.0 ^= self.0 << 13; self.0 ^= self.0 >> 7; self.0 ^= self.0 << 17; self.0 } fn below(&mut self, n: u64) -> u64 { self.next() % n } }
const PIECES: &[&str] = &["a", "b", " ", "\n", "\r\n", "\r", "é", "日", "😀", "x = 1", "\t", "\u{0}", "ß", "\n\n", "𝒳"];
const DOCS: &[&str] = &["", "a", "\n", "a\nb", "a\r\nb\r\n", "é", "😀", "x = \"ééé\" + y", "s = \"a😀b\"\nt", "def foo():\r\n    pass\r\n", "\n\n\n", "ab\n", "日本語\nテスト"];
fn rdoc(r: &mut Rng, n: u64) -> String {
    if (n as usize) < DOCS.len() * 8 { return DOCS[(n as usize) / 8].to_string(); }
    let k = r.below(7); let mut s = String::new(); for _ in 0..k { s.push_str(PIECES[r.below(PIECES.len() as u64) as usize]); } s
}
fn roff(r: &mut Rng, s: &str) -> usize {
    match r.below(8) { 0 => s.len(), 1 => s.len() + 1, 2 => usize::MAX, 3 => usize::MAX - 1, 4 => 0, _ => if s.is_empty() { 0 } else { r.below(s.len() as u64 + 2) as usize } }
}
fn search(oracle: &str, seed: u64, budget: u64, skip: &[String]) -> Value {
    let mut r = Rng(seed.wrapping_mul(0x9E3779B97F4A7C15) | 1);
    let mut tried = 0;
    for n in 0..budget {
        let s = rdoc(&mut r, n);
        let a = match oracle {
            "lsp::offset_to_position" => json!({"s": s, "offset": roff(&mut r, &s)}),
            "lsp::round_trip" | "lsp::position_to_offset" | "lsp::monotone" => json!({"s": s, "k": r.below(s.chars().count() as u64 + 1)}),
            "lsp::span_to_range" | "syntax::get_line_info" => { let a = roff(&mut r, &s); let b = roff(&mut r, &s); json!({"s": s, "start": a, "end": b}) }
            _ => return json!({"found": false, "error": "no generator"}),
        };
        let v = call(oracle, &a);
        tried += 1;
        if v.get("error").is_some() { return v; }
        if v["ok"] == json!(false) {
            if let Some(c) = v.get("class").and_then(|c| c.as_str()) { if skip.iter().any(|s| s == c) { continue; } }
            return json!({"found": true, "tried": tried, "case": v});
        }
    }
    json!({"found": false, "tried": tried})
}

fn main() {
    std::panic::set_hook(Box::new(|_| {}));
    let args: Vec<String> = std::env::args().collect();
    if args.len() < 3 { std::process::exit(2); }
    match args[1].as_str() {
        "call" => println!("{}", call(&args[2], &serde_json::from_str(&args[3]).expect("json"))),
        "search" => {
            let seed = args.get(3).and_then(|s| s.parse().ok()).unwrap_or(0);
            let budget = args.get(4).and_then(|s| s.parse().ok()).unwrap_or(100_000);
            let skip: Vec<String> = args.get(5).map(|s| s.split(',').map(|x| x.to_string()).collect()).unwrap_or_default();
            println!("{}", search(&args[2], seed, budget, &skip));
        }
        _ => std::process::exit(2),
    }
}
