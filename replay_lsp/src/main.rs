//! Native replay driver for C19: the REAL position/offset conversions of the `incan` crate
//! (`--features lsp`) and the terminal renderer of `incan_syntax` (default features).
//!   verif_replay_lsp call|search <oracle> ...    (same protocol as verif_replay)
use serde_json::{json, Value};
use std::panic::{catch_unwind, AssertUnwindSafe};

fn guarded<T>(f: impl FnOnce() -> T) -> Result<T, String> {
    match catch_unwind(AssertUnwindSafe(f)) {
        Ok(v) => Ok(v),
        Err(e) => Err(e.downcast_ref::<String>().cloned().or_else(|| e.downcast_ref::<&str>().map(|s| s.to_string())).unwrap_or("<panic>".into())),
    }
}

// ---- spec functions (specs/utf8_pos.rs), executable
fn boundaries(s: &str) -> Vec<usize> { let mut v: Vec<usize> = s.char_indices().map(|(i, _)| i).collect(); v.push(s.len()); v }
#[allow(dead_code)]
fn pos_of(s: &str, k: usize) -> (u64, u64) {
    let (mut l, mut c) = (0u64, 0u64);
    for ch in s.chars().take(k) { if ch == '\n' { l += 1; c = 0 } else { c += 1 } }
    (l, c)
}
fn first_boundary_at_or_after(s: &str, o: usize) -> usize {
    let o = o.min(s.len());
    boundaries(s).iter().position(|&b| b >= o).unwrap()
}

fn gs(v: &Value, k: &str) -> String { v[k].as_str().unwrap().to_string() }
fn gu(v: &Value, k: &str) -> usize { v[k].as_u64().map(|x| x as usize).unwrap_or_else(|| v[k].as_str().unwrap().parse().unwrap()) }
fn verdict(ok: bool, observed: Value, expected: Value, args: &Value, what: &str) -> Value {
    json!({"ok": ok, "observed": observed, "expected": expected, "args": args, "what": what})
}

fn call(oracle: &str, v: &Value) -> Value {
    match oracle {
        #[cfg(feature = "lsp")]
        "lsp::offset_to_position" => {
            use incan::lsp::diagnostics::offset_to_position;
            let (s, o) = (gs(v, "s"), gu(v, "offset"));
            let got = guarded(|| { let p = offset_to_position(&s, o); (p.line as u64, p.character as u64) });
            let e = pos_of(&s, first_boundary_at_or_after(&s, o));
            verdict(matches!(&got, Ok(g) if *g == e), match &got { Ok(g) => json!({"line": g.0, "character": g.1}), Err(m) => json!({"panicked": m}) },
                    json!({"line": e.0, "character": e.1}), v, "offset -> position agrees with counting newlines and characters")
        }
        #[cfg(feature = "lsp")]
        "lsp::round_trip" => {
            use incan::lsp::diagnostics::{offset_to_position, position_to_offset};
            let (s, k) = (gs(v, "s"), gu(v, "k"));
            let b = boundaries(&s);
            let k = k.min(b.len() - 1);
            let o = b[k];
            let got = guarded(|| { let p = offset_to_position(&s, o); (p.line, p.character, position_to_offset(&s, p)) });
            let ok = matches!(&got, Ok((_, _, Some(back))) if *back == o);
            verdict(ok, match &got { Ok((l, c, back)) => json!({"position": [l, c], "back": back}), Err(m) => json!({"panicked": m}) },
                    json!({"back": o, "position": [pos_of(&s, k).0, pos_of(&s, k).1]}), &json!({"s": s, "k": k, "offset": o}), "boundary offset -> position -> offset round trip")
        }
        #[cfg(feature = "lsp")]
        "lsp::position_to_offset" => {
            use incan::lsp::diagnostics::{offset_to_position, position_to_offset};
            let (s, k) = (gs(v, "s"), gu(v, "k"));
            let b = boundaries(&s);
            let k = k.min(b.len() - 1);
            let (l, c) = pos_of(&s, k);
            let got = guarded(|| { let mut p = offset_to_position("", 0); p.line = l as u32; p.character = c as u32; position_to_offset(&s, p) });
            verdict(matches!(&got, Ok(Some(o)) if *o == b[k]), match &got { Ok(o) => json!({"returned": o}), Err(m) => json!({"panicked": m}) },
                    json!({"returned": b[k]}), &json!({"s": s, "k": k, "line": l, "character": c}), "position of boundary k -> byte offset of boundary k")
        }
        #[cfg(feature = "lsp")]
        "lsp::monotone" => {
            use incan::lsp::diagnostics::offset_to_position;
            let (s, k) = (gs(v, "s"), gu(v, "k"));
            let b = boundaries(&s);
            if b.len() < 2 { return verdict(true, json!(null), json!(null), v, "too short"); }
            let k = k.min(b.len() - 2);
            let got = guarded(|| { let p = offset_to_position(&s, b[k]); let q = offset_to_position(&s, b[k + 1]); ((p.line, p.character), (q.line, q.character)) });
            verdict(matches!(&got, Ok((p, q)) if p < q), match &got { Ok((p, q)) => json!({"p": [p.0, p.1], "q": [q.0, q.1]}), Err(m) => json!({"panicked": m}) },
                    json!("p < q lexicographically"), &json!({"s": s, "k": k, "o1": b[k], "o2": b[k + 1]}), "positions strictly monotone in boundary offsets")
        }
        #[cfg(feature = "lsp")]
        "lsp::span_to_range" => {
            use incan::lsp::diagnostics::span_to_range;
            let (s, a, b) = (gs(v, "s"), gu(v, "start"), gu(v, "end"));
            if a == usize::MAX { return verdict(true, json!(null), json!(null), v, "start == usize::MAX is outside the stated input invariant (A3)"); }
            let got = guarded(|| { let r = span_to_range(&s, a, b); ((r.start.line as u64, r.start.character as u64), (r.end.line as u64, r.end.character as u64)) });
            let doc_end = pos_of(&s, s.chars().count());
            let es = pos_of(&s, first_boundary_at_or_after(&s, a));
            let ok = matches!(&got, Ok((st, en)) if st <= en && *en <= doc_end && *st == es);
            verdict(ok, match &got { Ok((st, en)) => json!({"start": [st.0, st.1], "end": [en.0, en.1]}), Err(m) => json!({"panicked": m}) },
                    json!({"start": [es.0, es.1], "end": "start <= end <= end of document", "doc_end": [doc_end.0, doc_end.1]}), v, "range lies inside the document with start <= end")
        }

        #[cfg(feature = "lsp")]
        "incan::exponent_kind" => c07::exponent_kind(v),
        #[cfg(feature = "lsp")]
        "incan::binop_plan" => c07::binop_plan(v),
        #[cfg(feature = "lsp")]
        "incan::static_type" => c07::static_type(v),
        #[cfg(feature = "lsp")]
        "incan::compound_assign" => c07::compound_assign(v),
        #[cfg(feature = "lsp")]
        "incan::static_type_nested" => c07::static_type_nested(v),
        #[cfg(feature = "lsp")]
        "incan::static_type_sources" => c07::static_type_sources(v),
        #[cfg(feature = "lsp")]
        "incan::emit_slice" => c05::emit_slice(v),
        #[cfg(feature = "lsp")]
        "incan::emit_division" => c05::emit_division(v),
        #[cfg(feature = "lsp")]
        "incan::emit_range" => c05::emit_range(v),
        #[cfg(feature = "lsp")]
        "incan::emit_promotion" => c05::emit_promotion(v),
        #[cfg(feature = "lsp")]
        "incan::multifile_index" | "incan::multifile_promotion" => c05::multifile_module(v),
        #[cfg(feature = "lsp")]
        "incan::fstring_operands" => c05::fstring_operands(v),
        #[cfg(feature = "lsp")]
        "lsp::diagnostic_range" => c05::diagnostic_range(v),
        #[cfg(feature = "lsp")]
        "lsp::server_ranges" => server::server_ranges(v),
        #[cfg(feature = "lsp")]
        "incan::fmt_error_location" => c05::fmt_error_location(v),
        #[cfg(feature = "lsp")]
        "lsp::published_ranges" => server::published_ranges(v),
        #[cfg(feature = "lsp")]
        "lsp::dependency_ranges" => server::dependency_ranges(v),
        #[cfg(feature = "lsp")]
        "lsp::pipe_ranges" => server::pipe_ranges(v),
        #[cfg(feature = "lsp")]
        "incan::cli_check_location" => c05::cli_check_location(v),
        "syntax::get_line_info" | "syntax::format_error_location" => {
            use incan_syntax::diagnostics::{format_error, CompileError};
            use incan_syntax::ast::Span;
            let (s, a, b) = (gs(v, "s"), gu(v, "start"), gu(v, "end"));
            let got = guarded(|| format_error("f", &s, &CompileError::new("m".to_string(), Span { start: a, end: b })));
            let o = a.min(s.len());
            // expected by counting newlines and characters
            let k = first_boundary_at_or_after(&s, o);
            let before: String = s.chars().take(k).collect();
            let line = 1 + before.matches('\n').count();
            let line_start_chars = before.rfind('\n').map(|i| before[..i + 1].chars().count()).unwrap_or(0);
            let col_chars = k - line_start_chars + 1;
            let line_start_bytes = before.rfind('\n').map(|i| i + 1).unwrap_or(0);
            let col_bytes = o - line_start_bytes + 1;
            let full_line: &str = { let rest = &s[line_start_bytes..]; &rest[..rest.find('\n').unwrap_or(rest.len())] };
            match &got {
                Err(m) => verdict(false, json!({"panicked": m}), json!({"line": line, "col": col_chars}), v, "terminal renderer must be total"),
                Ok(text) => {
                    let hdr = text.lines().find(|l| l.contains("-->")).unwrap_or("");
                    let loc = hdr.rsplit(' ').next().unwrap_or("");
                    let parts: Vec<&str> = loc.rsplitn(3, ':').collect();
                    let (oc, ol) = (parts.get(0).and_then(|x| x.parse::<usize>().ok()), parts.get(1).and_then(|x| x.parse::<usize>().ok()));
                    let src_line = text.lines().nth(3).map(|l| l.to_string()).unwrap_or_default();
                    let line_ok = src_line.ends_with(full_line) ;
                    let ok = ol == Some(line) && oc == Some(col_chars);
                    let mut r = verdict(ok, json!({"line": ol, "col": oc, "source_line_shown_ok": line_ok}), json!({"line": line, "col": col_chars, "col_if_counting_bytes": col_bytes}), v,
                                        "terminal line:col agree with counting newlines and characters");
                    if !ok && ol == Some(line) && oc == Some(col_bytes) && col_bytes != col_chars { r["class"] = json!("C19-terminal-column-counts-bytes"); }
                    r
                }
            }
        }
        _ => json!({"error": format!("unknown oracle {} (built without --features lsp?)", oracle)}),
    }
}


#[cfg(feature = "lsp")]
mod server {
    //! C19 bounded stand-in for the call sites in src/lsp/backend.rs (async tower-lsp handlers: outside the verifier's
    //! reach): the REAL language server is driven with did_open + hover + goto_definition at a cursor position and every
    //! range it returns must lie inside the document with start <= end.
    use super::{guarded, verdict};
    use incan::lsp::IncanLanguageServer;
    use serde_json::{json, Value};
    use tower_lsp::lsp_types::*;
    use tower_lsp::{Client, LanguageServer, LspService};

    pub const SERVER_DOCS: &[&str] = &[
        "def helper() -> int:\n    return 1\n\ndef main() -> None:\n    println(helper())\n",
        "@derive(Debug)\nmodel User:\n    name: str\n\ndef main() -> None:\n    u = User(name=\"é\")\n    println(u.name)\n",
        "const GREETING: str = \"héllo 😀\"\n\ndef shout(s: str) -> str:\n    return s\n\ndef main() -> None:\n    println(shout(GREETING))\n",
        "def f(a: int) -> int:\r\n    return a\r\n\r\ndef main() -> None:\r\n    println(f(1))\r\n",
        "enum Color:\n    Red\n    Green\n\ndef pick() -> Color:\n    return Color.Red\n\ndef main() -> None:\n    c = pick()\n",
        "def main() -> None:\n    x: int = 1 +\n",
        // no final newline: the last declaration ends at the end of the text
        "def f() -> int:\n    return 1",
        "const A: int = 1\nconst LAST: int = 2",
        // tab-indented body, decorated declaration at the end without a final newline
        "def g() -> int:\n\treturn 1\n\n@derive(Eq)\nmodel CustomerAccountRecord:\n\tname: str",
    ];

    fn server() -> IncanLanguageServer {
        let mut captured: Option<Client> = None;
        let (_service, _socket) = LspService::new(|client| { captured = Some(client.clone()); IncanLanguageServer::new(client) });
        IncanLanguageServer::new(captured.expect("client"))
    }
    fn pos_ok(source: &str, p: Position) -> bool {
        // a position of the document: some character boundary has exactly this (line, column)
        let (mut l, mut c) = (0u32, 0u32);
        if (l, c) == (p.line, p.character) { return true; }
        for ch in source.chars() {
            if ch == '\n' { l += 1; c = 0 } else { c += 1 }
            if (l, c) == (p.line, p.character) { return true; }
        }
        false
    }
    fn range_ok(source: &str, r: &Range) -> bool {
        (r.start.line, r.start.character) <= (r.end.line, r.end.character) && pos_ok(source, r.start) && pos_ok(source, r.end)
    }

    pub const ERR_DOCS: &[&str] = &[
        "def main() -> None:\n    s: int = \"日本語日本語日本語\"\n",
        "def main() -> None:\n    t: str = \"é😀é😀é😀\" + 1\n    u: int = \"x\"\n",
        "def f(a: int) -> int:\r\n    return \"ééééé\"\r\n\r\ndef main() -> None:\r\n    pass\r\n",
        "def main() -> None:\n    x = \"ééé\" + undefined_name\n",
        "def main() -> None:\n    y: int = 1 +\n",
        "def main() -> None:\n    z = \"😀😀😀\" !\n",
    ];

    /// C19 bounded stand-in for analyze_document (what the server PUBLISHES): the real server is run over an in-memory
    /// pipe (initialize, initialized, didOpen) and every range of the published diagnostics must lie inside the document.
    pub fn published_ranges(v: &Value) -> Value {
        use tokio::io::{AsyncReadExt, AsyncWriteExt};
        let di = v["doc"].as_u64().unwrap() as usize % ERR_DOCS.len();
        let source = ERR_DOCS[di].to_string();
        let src2 = source.clone();
        let got = guarded(move || {
            let rt = tokio::runtime::Builder::new_current_thread().enable_all().build().unwrap();
            rt.block_on(async {
                let (service, socket) = LspService::new(IncanLanguageServer::new);
                let (client_io, server_io) = tokio::io::duplex(1 << 20);
                let (sr, sw) = tokio::io::split(server_io);
                let server = tower_lsp::Server::new(sr, sw, socket).serve(service);
                let (mut r, mut w) = tokio::io::split(client_io);
                async fn send<W: tokio::io::AsyncWrite + Unpin>(w: &mut W, body: serde_json::Value) {
                    let t = body.to_string();
                    let _ = w.write_all(format!("Content-Length: {}\r\n\r\n{}", t.len(), t).as_bytes()).await;
                    let _ = w.flush().await;
                }
                async fn recv<R: tokio::io::AsyncRead + Unpin>(r: &mut R) -> serde_json::Value {
                    let mut header = Vec::new();
                    while !header.ends_with(b"\r\n\r\n") { let mut b = [0u8; 1]; if r.read_exact(&mut b).await.is_err() { return json!(null); } header.push(b[0]); }
                    let header = String::from_utf8_lossy(&header).to_string();
                    let len: usize = header.lines().find_map(|l| l.strip_prefix("Content-Length: ")).and_then(|x| x.trim().parse().ok()).unwrap_or(0);
                    let mut body = vec![0u8; len];
                    if r.read_exact(&mut body).await.is_err() { return json!(null); }
                    serde_json::from_slice(&body).unwrap_or(json!(null))
                }
                let uri = "file:///verif/main.incn";
                let talk = async {
                    send(&mut w, json!({"jsonrpc": "2.0", "id": 1, "method": "initialize", "params": {"capabilities": {}}})).await;
                    loop { let m = recv(&mut r).await; if m.is_null() { return None; } if m["id"] == json!(1) { break; } }
                    send(&mut w, json!({"jsonrpc": "2.0", "method": "initialized", "params": {}})).await;
                    send(&mut w, json!({"jsonrpc": "2.0", "method": "textDocument/didOpen", "params": {"textDocument": {"uri": uri, "languageId": "incan", "version": 1, "text": src2}}})).await;
                    loop {
                        let body = recv(&mut r).await;
                        if body.is_null() { return None; }
                        if body["method"] == "textDocument/publishDiagnostics" && body["params"]["uri"] == uri {
                            let mut rs = Vec::new();
                            for d in body["params"]["diagnostics"].as_array().cloned().unwrap_or_default() {
                                let mut all = vec![d["range"].clone()];
                                for ri in d["relatedInformation"].as_array().cloned().unwrap_or_default() { all.push(ri["location"]["range"].clone()); }
                                for rg in all {
                                    let p = |x: &serde_json::Value| Position::new(x["line"].as_u64().unwrap_or(0) as u32, x["character"].as_u64().unwrap_or(0) as u32);
                                    rs.push(Range::new(p(&rg["start"]), p(&rg["end"])));
                                }
                            }
                            return Some(rs);
                        }
                    }
                };
                tokio::select! {
                    _ = server => None,
                    _ = tokio::time::sleep(std::time::Duration::from_secs(10)) => None,
                    d = talk => d,
                }
            })
        });
        let echo = json!({"doc": di, "source": source});
        match &got {
            Ok(Some(rs)) => {
                let bad: Vec<_> = rs.iter().filter(|r| !range_ok(&source, r)).map(|r| json!([[r.start.line, r.start.character], [r.end.line, r.end.character]])).collect();
                verdict(bad.is_empty() && !rs.is_empty(), json!({"published_ranges": rs.len(), "outside_document_or_reversed": bad}),
                        json!("at least one diagnostic; every published range: start <= end, both ends positions of the document"), &echo, "ranges of published diagnostics lie inside the document")
            }
            Ok(None) => verdict(false, json!("no publishDiagnostics received within 10 s"), json!("diagnostics for an ill-formed document"), &echo, "the server must publish diagnostics"),
            Err(m) => verdict(false, json!({"panicked": m}), json!("no panic"), &echo, "the server must not panic"),
        }
    }

    pub const DEP_DOCS: &[&str] = &[
        // one long line, illegal character far to the right
        "const A: int = 1                                            $",
        // non-ASCII text before an illegal character on the third line
        "const A: int = 1\n# ééééééééééééééééééééééééééé 😀😀😀\nconst B: str = \"日本語\" $\n",
        // a parse error on the last of several lines
        "const A: int = 1\n\n\n\n\ndef broken( -> int:\n    return 1\n",
        // CRLF line ends, parse error
        "const A: int = 1\r\nconst B: int = 2\r\ndef g() -> int:\r\n    return 1 +\r\n",
    ];
    pub const ENTRY_DOCS: &[&str] = &[
        // many short lines
        "from helper import A\nconst K0: int = 0\nconst K1: int = 1\nconst K2: int = 2\nconst K3: int = 3\nconst K4: int = 4\nconst K5: int = 5\nconst K6: int = 6\nconst K7: int = 7\nconst K8: int = 8\n",
        // a single line
        "from helper import A",
        // the import after non-ASCII comment lines
        "# ééé 😀\n# 日本語\nfrom helper import A\n\ndef main() -> None:\n    println(A)\n",
    ];

    /// C19 bounded stand-in for collect_dependency_modules (what the server publishes for an IMPORTED module that does
    /// not lex / parse, and the summary it attaches to the import): the real server is run over an in-memory pipe on an
    /// entry document next to a dependency file on disk; every range published under the dependency's URI must lie inside
    /// the DEPENDENCY's text and start where the front end's error span starts, every range published for the entry
    /// document must lie inside the entry text.
    pub fn dependency_ranges(v: &Value) -> Value {
        use tokio::io::{AsyncReadExt, AsyncWriteExt};
        let dep_text = DEP_DOCS[v["dep"].as_u64().unwrap() as usize % DEP_DOCS.len()].to_string();
        let entry_text = ENTRY_DOCS[v["entry"].as_u64().unwrap() as usize % ENTRY_DOCS.len()].to_string();
        let dir = std::env::temp_dir().join(format!("verif_c19_dep_{}_{}_{}", std::process::id(), v["dep"], v["entry"]));
        let _ = std::fs::remove_dir_all(&dir);
        if std::fs::create_dir_all(&dir).is_err() { return json!({"error": "cannot create a scratch directory"}); }
        let _ = std::fs::write(dir.join("helper.incn"), &dep_text);
        let _ = std::fs::write(dir.join("main.incn"), &entry_text);
        let canon = |p: std::path::PathBuf| p.canonicalize().unwrap_or(p);
        let dep_uri = Url::from_file_path(canon(dir.join("helper.incn"))).unwrap().to_string();
        let entry_uri = Url::from_file_path(canon(dir.join("main.incn"))).unwrap().to_string();
        // the spans the front end reports for the dependency (lexer errors, else parser errors)
        let spans: Vec<usize> = match incan::frontend::lexer::lex(&dep_text) {
            Err(es) => es.iter().map(|e| e.span.start).collect(),
            Ok(toks) => match incan::frontend::parser::parse(&toks) { Err(es) => es.iter().map(|e| e.span.start).collect(), Ok(_) => Vec::new() },
        };
        let (e2, d2, et2) = (entry_uri.clone(), dep_uri.clone(), entry_text.clone());
        let got = guarded(move || {
            let rt = tokio::runtime::Builder::new_current_thread().enable_all().build().unwrap();
            rt.block_on(async {
                let (service, socket) = LspService::new(IncanLanguageServer::new);
                let (client_io, server_io) = tokio::io::duplex(1 << 20);
                let (sr, sw) = tokio::io::split(server_io);
                let server = tower_lsp::Server::new(sr, sw, socket).serve(service);
                let (mut r, mut w) = tokio::io::split(client_io);
                async fn send<W: tokio::io::AsyncWrite + Unpin>(w: &mut W, body: serde_json::Value) {
                    let t = body.to_string();
                    let _ = w.write_all(format!("Content-Length: {}\r\n\r\n{}", t.len(), t).as_bytes()).await;
                    let _ = w.flush().await;
                }
                async fn recv<R: tokio::io::AsyncRead + Unpin>(r: &mut R) -> serde_json::Value {
                    let mut header = Vec::new();
                    while !header.ends_with(b"\r\n\r\n") { let mut b = [0u8; 1]; if r.read_exact(&mut b).await.is_err() { return json!(null); } header.push(b[0]); }
                    let header = String::from_utf8_lossy(&header).to_string();
                    let len: usize = header.lines().find_map(|l| l.strip_prefix("Content-Length: ")).and_then(|x| x.trim().parse().ok()).unwrap_or(0);
                    let mut body = vec![0u8; len];
                    if r.read_exact(&mut body).await.is_err() { return json!(null); }
                    serde_json::from_slice(&body).unwrap_or(json!(null))
                }
                let talk = async {
                    send(&mut w, json!({"jsonrpc": "2.0", "id": 1, "method": "initialize", "params": {"capabilities": {}}})).await;
                    loop { let m = recv(&mut r).await; if m.is_null() { return None; } if m["id"] == json!(1) { break; } }
                    send(&mut w, json!({"jsonrpc": "2.0", "method": "initialized", "params": {}})).await;
                    send(&mut w, json!({"jsonrpc": "2.0", "method": "textDocument/didOpen", "params": {"textDocument": {"uri": e2, "languageId": "incan", "version": 1, "text": et2}}})).await;
                    let (mut dep, mut entry): (Option<Vec<Range>>, Option<Vec<Range>>) = (None, None);
                    while dep.is_none() || entry.is_none() {
                        let body = recv(&mut r).await;
                        if body.is_null() { return None; }
                        if body["method"] != "textDocument/publishDiagnostics" { continue; }
                        let mut rs = Vec::new();
                        for d in body["params"]["diagnostics"].as_array().cloned().unwrap_or_default() {
                            let mut all = vec![d["range"].clone()];
                            for ri in d["relatedInformation"].as_array().cloned().unwrap_or_default() { all.push(ri["location"]["range"].clone()); }
                            for rg in all {
                                let p = |x: &serde_json::Value| Position::new(x["line"].as_u64().unwrap_or(0) as u32, x["character"].as_u64().unwrap_or(0) as u32);
                                rs.push(Range::new(p(&rg["start"]), p(&rg["end"])));
                            }
                        }
                        if body["params"]["uri"] == json!(d2) { dep = Some(rs); } else if body["params"]["uri"] == json!(e2) { entry = Some(rs); }
                    }
                    Some((dep.unwrap(), entry.unwrap()))
                };
                tokio::select! {
                    _ = server => None,
                    _ = tokio::time::sleep(std::time::Duration::from_secs(10)) => None,
                    d = talk => d,
                }
            })
        });
        let _ = std::fs::remove_dir_all(&dir);
        let echo = json!({"dep": v["dep"], "entry": v["entry"], "dependency_text": dep_text, "entry_text": entry_text});
        let show = |r: &Range| json!([[r.start.line, r.start.character], [r.end.line, r.end.character]]);
        match &got {
            Ok(Some((dep, entry))) => {
                let bad_dep: Vec<_> = dep.iter().filter(|r| !range_ok(&dep_text, r)).map(show).collect();
                let bad_entry: Vec<_> = entry.iter().filter(|r| !range_ok(&entry_text, r)).map(show).collect();
                // every front-end error span start is the start of some published dependency range
                let want: Vec<(u32, u32)> = spans.iter().map(|&o| { let p = super::pos_of(&dep_text, super::first_boundary_at_or_after(&dep_text, o)); (p.0 as u32, p.1 as u32) }).collect();
                let missing: Vec<_> = want.iter().filter(|w| !dep.iter().any(|r| (r.start.line, r.start.character) == **w)).map(|w| json!([w.0, w.1])).collect();
                verdict(bad_dep.is_empty() && bad_entry.is_empty() && !dep.is_empty() && missing.is_empty(),
                        json!({"dependency_ranges": dep.iter().map(show).collect::<Vec<_>>(), "outside_dependency_text": bad_dep, "entry_ranges_outside_entry_text": bad_entry, "error_starts_not_published": missing}),
                        json!({"dependency": "at least one diagnostic; every range inside the dependency's text, starting where the front end's span starts", "starts": want.iter().map(|w| json!([w.0, w.1])).collect::<Vec<_>>(), "entry": "every range inside the entry text"}),
                        &echo, "diagnostics published for an imported module are positions of THAT module's text")
            }
            Ok(None) => verdict(false, json!("publishDiagnostics for the dependency and the entry document not both received within 10 s"), json!("diagnostics for both documents"), &echo, "the server must publish diagnostics for a broken dependency"),
            Err(m) => verdict(false, json!({"panicked": m}), json!("no panic"), &echo, "the server must not panic"),
        }
    }

    /// C19 bounded stand-in for EVERY request the server advertises (not only the handlers known today): the real server is
    /// run over an in-memory pipe; after `initialize` each provider found in the advertised capabilities is queried
    /// (document-wide requests once, position-based requests at a spread of cursor positions) and every `{start, end}`
    /// range found anywhere in the answers must lie inside the document with start <= end.
    pub fn pipe_ranges(v: &Value) -> Value {
        use tokio::io::{AsyncReadExt, AsyncWriteExt};
        let di = v["doc"].as_u64().unwrap() as usize % SERVER_DOCS.len();
        // mode 0: the document alone; mode 1: a second, longer document with the same path under another URI scheme is opened
        // after it (a diff view); mode 2: the document is edited first — three comment lines inserted at the top, then the
        // second of them deleted (two SEQUENTIAL edits in one notification), sent the way the server's advertised sync kind asks for
        let mode = v["mode"].as_u64().unwrap_or(0) % 3;
        let original = SERVER_DOCS[di].to_string();
        let inserted = "# one\n# two\n# three\n";
        // (the edited text stays well-formed: the second edit deletes one of the comment lines the first edit inserted)
        let source = if mode == 2 { format!("# one\n# three\n{}", original) } else { original.clone() };
        let src2 = original.clone();
        let final_text = source.clone();
        let got = guarded(move || {
            let rt = tokio::runtime::Builder::new_current_thread().enable_all().build().unwrap();
            rt.block_on(async {
                let (service, socket) = LspService::new(IncanLanguageServer::new);
                let (client_io, server_io) = tokio::io::duplex(1 << 22);
                let (sr, sw) = tokio::io::split(server_io);
                let server = tower_lsp::Server::new(sr, sw, socket).serve(service);
                let (mut r, mut w) = tokio::io::split(client_io);
                async fn send<W: tokio::io::AsyncWrite + Unpin>(w: &mut W, body: serde_json::Value) {
                    let t = body.to_string();
                    let _ = w.write_all(format!("Content-Length: {}\r\n\r\n{}", t.len(), t).as_bytes()).await;
                    let _ = w.flush().await;
                }
                async fn recv<R: tokio::io::AsyncRead + Unpin>(r: &mut R) -> serde_json::Value {
                    let mut header = Vec::new();
                    while !header.ends_with(b"\r\n\r\n") { let mut b = [0u8; 1]; if r.read_exact(&mut b).await.is_err() { return json!(null); } header.push(b[0]); }
                    let header = String::from_utf8_lossy(&header).to_string();
                    let len: usize = header.lines().find_map(|l| l.strip_prefix("Content-Length: ")).and_then(|x| x.trim().parse().ok()).unwrap_or(0);
                    let mut body = vec![0u8; len];
                    if r.read_exact(&mut body).await.is_err() { return json!(null); }
                    serde_json::from_slice(&body).unwrap_or(json!(null))
                }
                let uri = "file:///verif/main.incn";
                let talk = async {
                    send(&mut w, json!({"jsonrpc": "2.0", "id": 1, "method": "initialize", "params": {"capabilities": {}}})).await;
                    let caps = loop { let m = recv(&mut r).await; if m.is_null() { return None; } if m["id"] == json!(1) { break m["result"]["capabilities"].clone(); } };
                    send(&mut w, json!({"jsonrpc": "2.0", "method": "initialized", "params": {}})).await;
                    send(&mut w, json!({"jsonrpc": "2.0", "method": "textDocument/didOpen", "params": {"textDocument": {"uri": uri, "languageId": "incan", "version": 1, "text": src2}}})).await;
                    // wait until the document has been analysed (its diagnostics are published)
                    loop { let m = recv(&mut r).await; if m.is_null() { return None; } if m["method"] == "textDocument/publishDiagnostics" && m["params"]["uri"] == uri { break; } }
                    if mode == 1 {
                        let other = "git:/verif/main.incn?%7B%22ref%22%3A%22HEAD%22%7D";
                        let longer = format!("{}\n\n\ndef extra_one() -> int:\n    return 1\n\ndef extra_two() -> int:\n    return 2\n\n\n\n", src2.trim_end());
                        send(&mut w, json!({"jsonrpc": "2.0", "method": "textDocument/didOpen", "params": {"textDocument": {"uri": other, "languageId": "incan", "version": 1, "text": longer}}})).await;
                        loop { let m = recv(&mut r).await; if m.is_null() { return None; } if m["method"] == "textDocument/publishDiagnostics" && m["params"]["uri"] == other { break; } }
                    }
                    if mode == 2 {
                        let sync = &caps["textDocumentSync"];
                        let kind = if sync.is_object() { sync["change"].as_u64().unwrap_or(1) } else { sync.as_u64().unwrap_or(1) };
                        let changes = if kind == 2 {
                            // sequential edits (the protocol applies each to the result of the previous one)
                            json!([{"range": {"start": {"line": 0, "character": 0}, "end": {"line": 0, "character": 0}}, "text": inserted},
                                   {"range": {"start": {"line": 1, "character": 0}, "end": {"line": 2, "character": 0}}, "text": ""}])
                        } else { json!([{"text": final_text}]) };
                        send(&mut w, json!({"jsonrpc": "2.0", "method": "textDocument/didChange", "params": {"textDocument": {"uri": uri, "version": 2}, "contentChanges": changes}})).await;
                        loop { let m = recv(&mut r).await; if m.is_null() { return None; } if m["method"] == "textDocument/publishDiagnostics" && m["params"]["uri"] == uri && m["params"]["version"] != json!(1) { break; } }
                    }
                    let src2 = final_text.clone();
                    let advertised = |k: &str| -> bool { !(caps[k].is_null() || caps[k] == json!(false)) };
                    // cursor positions: every line start, every 3rd character boundary, and the end of the text
                    let mut cursors: Vec<(u32, u32)> = Vec::new();
                    { let (mut l, mut c, mut n) = (0u32, 0u32, 0usize);
                      for ch in src2.chars() { if c == 0 || n % 3 == 0 { cursors.push((l, c)); } if ch == '\n' { l += 1; c = 0 } else { c += 1 } n += 1; }
                      cursors.push((l, c)); }
                    let whole: [(&str, &str); 6] = [("documentSymbolProvider", "textDocument/documentSymbol"), ("foldingRangeProvider", "textDocument/foldingRange"),
                        ("codeLensProvider", "textDocument/codeLens"), ("documentLinkProvider", "textDocument/documentLink"), ("colorProvider", "textDocument/documentColor"),
                        ("documentFormattingProvider", "textDocument/formatting")];
                    let at_pos: [(&str, &str); 9] = [("hoverProvider", "textDocument/hover"), ("definitionProvider", "textDocument/definition"), ("declarationProvider", "textDocument/declaration"),
                        ("typeDefinitionProvider", "textDocument/typeDefinition"), ("implementationProvider", "textDocument/implementation"), ("referencesProvider", "textDocument/references"),
                        ("documentHighlightProvider", "textDocument/documentHighlight"), ("renameProvider", "textDocument/prepareRename"), ("selectionRangeProvider", "textDocument/selectionRange")];
                    let mut id = 10u64;
                    let mut answers: Vec<(String, serde_json::Value)> = Vec::new();
                    for (cap, method) in whole.iter() {
                        if !advertised(cap) { continue; }
                        id += 1;
                        let mut params = json!({"textDocument": {"uri": uri}});
                        if *method == "textDocument/formatting" { params["options"] = json!({"tabSize": 4, "insertSpaces": true}); }
                        send(&mut w, json!({"jsonrpc": "2.0", "id": id, "method": method, "params": params})).await;
                        loop { let m = recv(&mut r).await; if m.is_null() { return None; } if m["id"] == json!(id) { answers.push((method.to_string(), m["result"].clone())); break; } }
                    }
                    for (cap, method) in at_pos.iter() {
                        if !advertised(cap) { continue; }
                        for (l, c) in cursors.iter() {
                            id += 1;
                            let mut params = json!({"textDocument": {"uri": uri}, "position": {"line": l, "character": c}});
                            if *method == "textDocument/references" { params["context"] = json!({"includeDeclaration": true}); }
                            if *method == "textDocument/selectionRange" { params = json!({"textDocument": {"uri": uri}, "positions": [{"line": l, "character": c}]}); }
                            send(&mut w, json!({"jsonrpc": "2.0", "id": id, "method": method, "params": params})).await;
                            loop { let m = recv(&mut r).await; if m.is_null() { return None; } if m["id"] == json!(id) { answers.push((format!("{} at {}:{}", method, l, c), m["result"].clone())); break; } }
                        }
                    }
                    Some(answers)
                };
                tokio::select! {
                    _ = server => None,
                    _ = tokio::time::sleep(std::time::Duration::from_secs(30)) => None,
                    d = talk => d,
                }
            })
        });
        // every {start: {line, character}, end: {line, character}} object anywhere in an answer (for other documents' locations: skipped)
        fn collect(v: &serde_json::Value, uri: &str, out: &mut Vec<Range>) {
            match v {
                serde_json::Value::Object(m) => {
                    if let (Some(u), true) = (m.get("uri").and_then(|x| x.as_str()), m.contains_key("range")) { if u != uri { return; } }
                    if let (Some(u), true) = (m.get("targetUri").and_then(|x| x.as_str()), m.contains_key("targetRange")) { if u != uri { return; } }
                    let pos = |x: &serde_json::Value| -> Option<Position> { Some(Position::new(x.get("line")?.as_u64()? as u32, x.get("character")?.as_u64()? as u32)) };
                    if let (Some(a), Some(b)) = (m.get("start").and_then(pos), m.get("end").and_then(pos)) { out.push(Range::new(a, b)); }
                    for (_, x) in m.iter() { collect(x, uri, out); }
                }
                serde_json::Value::Array(a) => for x in a { collect(x, uri, out); },
                _ => {}
            }
        }
        let echo = json!({"doc": di, "mode": mode, "source": source});
        match &got {
            Ok(Some(answers)) => {
                let mut bad = Vec::new(); let mut n = 0usize;
                for (what, ans) in answers {
                    let mut rs = Vec::new(); collect(ans, "file:///verif/main.incn", &mut rs);
                    n += rs.len();
                    for r in rs { if !range_ok(&source, &r) && bad.len() < 6 { bad.push(json!({"request": what, "range": [[r.start.line, r.start.character], [r.end.line, r.end.character]]})); } }
                }
                verdict(bad.is_empty(), json!({"requests_answered": answers.len(), "ranges_seen": n, "outside_document_or_reversed": bad}),
                        json!("every range in every answer: start <= end, both ends positions of the document"), &echo, "ranges answered for any advertised request lie inside the document")
            }
            Ok(None) => verdict(false, json!("the server did not answer within 30 s"), json!("answers to the advertised requests"), &echo, "the server must answer the requests it advertises"),
            Err(m) => verdict(false, json!({"panicked": m}), json!("no panic"), &echo, "the server must not panic"),
        }
    }

    pub fn server_ranges(v: &Value) -> Value {
        let di = v["doc"].as_u64().unwrap() as usize % SERVER_DOCS.len();
        let source = SERVER_DOCS[di].to_string();
        // cursor: the k-th character boundary
        let k = v["k"].as_u64().unwrap() as usize;
        let (mut l, mut c, mut n) = (0u32, 0u32, 0usize);
        for ch in source.chars() { if n == k { break; } if ch == '\n' { l += 1; c = 0 } else { c += 1 } n += 1; }
        let at = Position::new(l, c);
        let src2 = source.clone();
        let got = guarded(move || {
            let rt = tokio::runtime::Builder::new_current_thread().enable_all().build().unwrap();
            rt.block_on(async {
                let uri = Url::parse("untitled:verif").unwrap();
                let srv = server();
                srv.did_open(DidOpenTextDocumentParams { text_document: TextDocumentItem { uri: uri.clone(), language_id: "incan".to_string(), version: 1, text: src2.clone() } }).await;
                let mut ranges: Vec<(String, Range)> = Vec::new();
                let tdp = TextDocumentPositionParams { text_document: TextDocumentIdentifier { uri: uri.clone() }, position: at };
                if let Ok(Some(h)) = srv.hover(HoverParams { text_document_position_params: tdp.clone(), work_done_progress_params: Default::default() }).await {
                    if let Some(r) = h.range { ranges.push(("hover".to_string(), r)); }
                }
                if let Ok(Some(resp)) = srv.goto_definition(GotoDefinitionParams { text_document_position_params: tdp.clone(), work_done_progress_params: Default::default(), partial_result_params: Default::default() }).await {
                    match resp {
                        GotoDefinitionResponse::Scalar(loc) => if loc.uri == uri { ranges.push(("definition".to_string(), loc.range)) },
                        GotoDefinitionResponse::Array(ls) => for loc in ls { if loc.uri == uri { ranges.push(("definition".to_string(), loc.range)) } },
                        GotoDefinitionResponse::Link(ls) => for l in ls { if l.target_uri == uri { ranges.push(("definition".to_string(), l.target_range)) } },
                    }
                }
                ranges
            })
        });
        let echo = json!({"doc": di, "k": k, "cursor": [at.line, at.character], "source": source});
        match &got {
            Ok(rs) => {
                let bad: Vec<_> = rs.iter().filter(|(_, r)| !range_ok(&source, r)).map(|(w, r)| json!({"what": w, "range": [[r.start.line, r.start.character], [r.end.line, r.end.character]]})).collect();
                verdict(bad.is_empty(), json!({"ranges_returned": rs.len(), "outside_document_or_reversed": bad}), json!("every returned range: start <= end, both ends positions of the document"), &echo,
                        "ranges answered by the language server lie inside the document")
            }
            Err(m) => verdict(false, json!({"panicked": m}), json!("no panic"), &echo, "the server must not panic"),
        }
    }
}

#[cfg(feature = "lsp")]
mod c05 {
    //! C05 bounded stand-in for the parser's slice/index syntax, the lowering of Index/Slice and
    //! emit_index_expr / emit_slice_expr: source text -> real lexer, parser, code generator -> the runtime
    //! helper call in the generated Rust must be the documented helper with the written bounds in the written
    //! positions (`None` exactly for an omitted bound). The helpers themselves are proved in the C05 units.
    use super::{guarded, verdict};
    use serde_json::{json, Value};

    fn bound_src(kind: &str, var: &str) -> Option<String> {
        match kind { "none" => None, "var" => Some(var.to_string()), "zero" => Some("0".to_string()), "neg" => Some("-1".to_string()), "two" => Some("2".to_string()), _ => None }
    }
    fn norm(s: &str) -> String { s.chars().filter(|c| !c.is_whitespace() && *c != '(' && *c != ')').collect() }
    /// arguments of the first call `name(` in `code`, split at top-level commas
    fn call_args(code: &str, name: &str) -> Option<Vec<String>> {
        let i = code.find(name)? + name.len();
        let b: Vec<char> = code[i..].chars().collect();
        if b.first() != Some(&'(') { return None; }
        let (mut depth, mut cur, mut out) = (0i32, String::new(), Vec::new());
        for &c in &b {
            match c {
                '(' | '[' | '{' => { depth += 1; if depth > 1 { cur.push(c); } }
                ')' | ']' | '}' => { depth -= 1; if depth == 0 { if !cur.trim().is_empty() { out.push(cur.clone()); } return Some(out); } cur.push(c); }
                ',' if depth == 1 => { out.push(cur.clone()); cur.clear(); }
                _ => cur.push(c),
            }
        }
        None
    }

    /// C04 bounded stand-in for the lowering of binary / compound-assignment statements and emit_binop_expr:
    /// `r = L op R` and `T op= R` must become `helper(L', R')` with the documented helper for the table's kind,
    /// the operands in source order, and exactly the int operands of a float operation promoted.
    pub fn emit_division(v: &Value) -> Value {
        let ops = ["/", "//", "%"];
        let op = ops[v["op"].as_u64().unwrap() as usize % 3];
        let lf = v["lfloat"].as_bool().unwrap();
        let rf = v["rfloat"].as_bool().unwrap();
        // form: plain `q = L op R`; compound on a local / a field / a list element; const initializer over literals
        let form = v["form"].as_str().unwrap_or(if v["compound"].as_bool().unwrap_or(false) { "local" } else { "plain" });
        // further plain-statement shapes: a bare expression statement, the operation inside int(..), parenthesised operands,
        // a call result as the left operand, and the body of a lambda whose parameter has no declared type
        let shape = matches!(form, "stmt" | "intcall" | "paren" | "call" | "lambda");
        let compound = form != "plain" && form != "const" && !shape;
        let float = op == "/" || lf || rf;
        if compound && float != lf { return verdict(true, json!(null), json!(null), v, "compound form would change the target's kind: rejected by the checker (C07)"); }
        let r = if rf { "y" } else { "b" };
        let neg = v["neg"].as_bool().unwrap_or(false);      // plain form with a negated left operand: `-a // b` is `(-a) // b`
        if neg && form != "plain" { return verdict(true, json!(null), json!(null), v, "negated left operand: plain form only"); }
        let (lsrc, lname): (String, String) = match form {
            "plain" if neg => (if lf { "-x" } else { "-a" }.to_string(), if lf { "-x" } else { "-a" }.to_string()),
            "plain" => (if lf { "x" } else { "a" }.to_string(), if lf { "x" } else { "a" }.to_string()),
            "local" => (if lf { "x2" } else { "a2" }.to_string(), if lf { "x2" } else { "a2" }.to_string()),
            "field" => (if lf { "acc.total" } else { "acc.n" }.to_string(), if lf { "acc.total" } else { "acc.n" }.to_string()),
            "index" => (if lf { "gs[0]" } else { "ys[0]" }.to_string(), if lf { "gs" } else { "ys" }.to_string()),
            "stmt" | "intcall" | "paren" => (if lf { "x" } else { "a" }.to_string(), if lf { "x" } else { "a" }.to_string()),
            "call" => (if lf { "halff(x)" } else { "half(a)" }.to_string(), if lf { "halffx" } else { "halfa" }.to_string()),
            "lambda" => ("u".to_string(), "u".to_string()),
            _ => ("7".to_string(), "7".to_string()),
        };
        if form == "lambda" && (op == "/" || lf) { return verdict(true, json!(null), json!(null), v, "lambda form: `//` and `%` with the untyped parameter on the left only"); }
        let src = if form == "const" {
            if lf || rf { return verdict(true, json!(null), json!(null), v, "const form uses int literals only"); }
            format!("const Q: {} = 7 {} -2\n\ndef main() -> None:\n    pass\n", if float { "float" } else { "int" }, op)
        } else {
            let stmt = if compound { format!("    {} {}= {}\n", lsrc, op, r) } else {
                match form {
                    "stmt" => format!("    {} {} {}\n", lsrc, op, r),
                    "intcall" => format!("    q = int({} {} {})\n", lsrc, op, r),
                    "paren" => format!("    q = ({}) {} ({})\n", lsrc, op, r),
                    "lambda" => format!("    g = (u) => u {} {}\n", op, r),
                    _ => format!("    q = {} {} {}\n", lsrc, op, r),
                }
            };
            format!("model Acc:\n    total: float\n    n: int\n\ndef half(v: int) -> int:\n    return v\n\ndef halff(v: float) -> float:\n    return v\n\ndef f(a: int, b: int, x: float, y: float, a0: Acc, fs: List[float], xs: List[int]) -> None:\n    mut a2: int = a\n    mut x2: float = x\n    mut acc: Acc = a0\n    mut gs: List[float] = fs\n    mut ys: List[int] = xs\n{}\ndef main() -> None:\n    pass\n", stmt)
        };
        let helper = if form == "lambda" { if op == "//" { "py_floor_div" } else { "py_mod" } } else {
            match (op, float) { ("/", _) => "py_div", ("//", false) => "py_floor_div_i64", ("//", true) => "py_floor_div_f64", (_, false) => "py_mod_i64", (_, true) => "py_mod_f64" } };
        let rname = if form == "const" { "2".to_string() } else { r.to_string() };
        // (an operand of unknown static type is passed on unconverted: the generic helper dispatches on the run-time type)
        let want = if form == "lambda" { vec![(lname.clone(), false), (rname, false)] } else { vec![(lname.clone(), float && !lf), (rname, float && !rf)] };
        let arg_ok = |got: &str, (name, promoted): &(String, bool)| -> bool {
            got.contains(name.as_str()) && ((got.contains("f64") || got.contains("into")) == *promoted)
                // an operand of unknown type must not be cast to an integer on the way (it may hold a float at run time)
                && !(form == "lambda" && (got.contains("asi64") || got.contains("as i64")))
        };
        let got = guarded(|| {
            let tokens = incan::frontend::lexer::lex(&src).map_err(|e| format!("lex: {:?}", e.first().map(|x| x.message.clone())))?;
            let prog = incan::frontend::parser::parse(&tokens).map_err(|e| format!("parse: {:?}", e.first().map(|x| x.message.clone())))?;
            incan::IrCodegen::new().try_generate(&prog).map_err(|e| format!("codegen: {}", e))
        });
        let echo = { let mut a = v.clone(); a["source"] = json!(src); a };
        match &got {
            Ok(Ok(code)) => {
                let flat: String = code.split_whitespace().collect::<Vec<_>>().join(" ").replace(" :: ", "::");
                let full = format!("incan_stdlib::num::{}", helper);
                let args = flat.match_indices(&full).filter(|(i, _)| flat[i + full.len()..].starts_with('(')).next()
                    .and_then(|(i, _)| call_args(&flat[i..], &full)).map(|a| a.iter().map(|x| norm(x)).collect::<Vec<_>>());
                let mut ok = matches!(&args, Some(a) if a.len() == 2 && arg_ok(&a[0], &want[0]) && arg_ok(&a[1], &want[1]));
                let mut folded = Value::Null;
                if !ok && form == "const" {
                    // a folded literal is fine if its VALUE is Python's: 7 // -2 == -4, 7 % -2 == -1, 7 / -2 == -3.5
                    if let Some(i) = flat.find("const Q") {
                        let rest = &flat[i..]; let init = rest[rest.find('=').unwrap_or(0) + 1..rest.find(';').unwrap_or(rest.len())].trim().to_string();
                        let val: Option<f64> = init.replace('_', "").replace("i64", "").replace("f64", "").replace(' ', "").trim_matches(|c| c == '(' || c == ')').parse().ok();
                        let py = match op { "/" => -3.5, "//" => -4.0, _ => -1.0 };
                        folded = json!({"initializer": init, "value": val});
                        ok = val == Some(py);
                    }
                }
                verdict(ok, json!({"call_args": args, "folded_const": folded}),
                        json!({"helper": full, "args (operand, promoted to float?)": want.iter().map(|(n, p)| json!([n, p])).collect::<Vec<_>>(), "or for a const": "a literal with Python's value"}), &echo,
                        "generated call: documented helper for the table's kind, operands in source order, exactly the int operands of a float operation converted to float")
            }
            Ok(Err(m)) => verdict(false, json!({"front_end_error": m}), json!({"helper": helper}), &echo, "a well-typed division must compile"),
            Err(m) => verdict(false, json!({"panicked": m}), json!({"helper": helper}), &echo, "front end must not panic"),
        }
    }

    /// C07 bounded stand-in for the lowering (expression typing of operands, compound-assignment desugaring) and
    /// emit_binop_expr on `+ - *` and `**`: in the generated Rust exactly the int operands of a float operation are
    /// promoted (`(e) as f64`), whatever the syntactic form of the operand (variable, field, len(), index).
    /// C05 / C07 bounded stand-in for IMPORTED modules (multi-file programs): the module is compiled through the real
    /// multi-file code generator (both the flat and the nested API) next to a main module that imports it; inside the module
    /// an index / slice read of a field must use the runtime helper for the field's type, and an int field operand of a float
    /// operation must be promoted — exactly as in a single-file program.
    pub fn multifile_module(v: &Value) -> Value {
        let kind = v["kind"].as_u64().unwrap_or(0) % 7;
        let nested = v["nested"].as_bool().unwrap_or(false);
        let (body, ret, musts): (&str, &str, Vec<&str>) = match kind {
            0 => ("b.xs[i]", "int", vec!["incan_stdlib::collections::list_get(&b.xs,"]),
            1 => ("b.name[i]", "str", vec!["incan_stdlib::strings::str_index(&b.name,"]),
            2 => ("b.xs[i:]", "List[int]", vec!["incan_stdlib::collections::list_slice(&b.xs,"]),
            3 => ("b.name[:i]", "str", vec!["incan_stdlib::strings::str_slice(&b.name,"]),
            4 => ("b.n * 2.5", "float", vec!["(b.n)asf64*2.5"]),
            5 => ("b.total + b.n", "float", vec!["b.total+(b.n)asf64"]),
            _ => ("b.n / i", "float", vec!["incan_stdlib::num::py_div("]),
        };
        let helper = format!("pub model Bag:\n    xs: List[int]\n    name: str\n    total: float\n    n: int\n\npub def get(b: Bag, i: int) -> {}:\n    return {}\n", ret, body);
        let main = "from helper import Bag, get\n\ndef main() -> None:\n    pass\n".to_string();
        let (h2, m2) = (helper.clone(), main.clone());
        let got = guarded(move || {
            let parse = |src: &str| -> Result<incan::frontend::ast::Program, String> {
                let tokens = incan::frontend::lexer::lex(src).map_err(|e| format!("lex: {:?}", e.first().map(|x| x.message.clone())))?;
                incan::frontend::parser::parse(&tokens).map_err(|e| format!("parse: {:?}", e.first().map(|x| x.message.clone())))
            };
            let (hast, mast) = (parse(&h2)?, parse(&m2)?);
            let mut cg = incan::IrCodegen::new();
            cg.add_module("helper", &hast);
            if nested {
                let (_main, mods) = cg.try_generate_multi_file_nested(&mast, &[vec!["helper".to_string()]]).map_err(|e| format!("codegen: {}", e))?;
                mods.get(&vec!["helper".to_string()]).cloned().ok_or("no code for module helper".to_string())
            } else {
                let (_main, mods) = cg.try_generate_multi_file(&mast, &["helper"]).map_err(|e| format!("codegen: {}", e))?;
                mods.get("helper").cloned().ok_or("no code for module helper".to_string())
            }
        });
        let echo = { let mut a = v.clone(); a["helper_module"] = json!(helper); a["main_module"] = json!(main); a };
        match &got {
            Ok(Ok(code)) => {
                let flat: String = code.chars().filter(|c| !c.is_whitespace()).collect::<String>().replace(",)", ")").replace("2.5f64", "2.5");
                let line = flat.find("fnget(").map(|i| { let r = &flat[i..]; r[..r.find("}").unwrap_or(r.len())].to_string() }).unwrap_or_default();
                let missing: Vec<&str> = musts.iter().filter(|m| !line.contains(**m)).cloned().collect();
                verdict(missing.is_empty(), json!({"generated_function": line, "missing": missing}), json!(musts), &echo,
                        "inside an imported module the generated code is the same as in a single-file program (typed lowering)")
            }
            Ok(Err(m)) => verdict(false, json!({"front_end_error": m}), json!(musts), &echo, "the two-module program must compile"),
            Err(m) => verdict(false, json!({"panicked": m}), json!(musts), &echo, "front end must not panic"),
        }
    }

    /// C04 / C07 bounded stand-in for operands inside f-strings: two f-strings in one function, the first over ints, the second
    /// over floats (sub-expressions of f-strings are lexed on their own; their spans key the checker's type map and must
    /// not collide): each expression must get the helper / the promotion for ITS operands' types.
    pub fn fstring_operands(v: &Value) -> Value {
        let ops = ["%", "//", "/", "*", "+", "-"];
        let op = ops[v["op"].as_u64().unwrap_or(0) as usize % ops.len()];
        let swap = v["swap"].as_bool().unwrap_or(false);      // floats first, ints second
        let (first, second) = if swap { (format!("x {} y", op), format!("a {} b", op)) } else { (format!("a {} b", op), format!("x {} y", op)) };
        let (m1, m2) = if swap { (format!("n {} 2.5", op), format!("r {} 2.5", op)) } else { (format!("r {} 2.5", op), format!("n {} 2.5", op)) };
        let src = format!("def f(a: int, b: int, x: float, y: float, n: int, r: float) -> None:\n    println(f\"{{{}}}\")\n    println(f\"{{{}}}\")\n    println(f\"{{{}}}\")\n    println(f\"{{{}}}\")\n\ndef main() -> None:\n    pass\n", first, second, m1, m2);
        let got = guarded(|| {
            let tokens = incan::frontend::lexer::lex(&src).map_err(|e| format!("lex: {:?}", e.first().map(|x| x.message.clone())))?;
            let prog = incan::frontend::parser::parse(&tokens).map_err(|e| format!("parse: {:?}", e.first().map(|x| x.message.clone())))?;
            incan::IrCodegen::new().try_generate(&prog).map_err(|e| format!("codegen: {}", e))
        });
        let musts: Vec<String> = match op {
            "%" => vec!["py_mod_i64(a,b)".into(), "py_mod_f64(x,y)".into(), "py_mod_f64((n)asf64,2.5)".into(), "py_mod_f64(r,2.5)".into()],
            "//" => vec!["py_floor_div_i64(a,b)".into(), "py_floor_div_f64(x,y)".into(), "py_floor_div_f64((n)asf64,2.5)".into(), "py_floor_div_f64(r,2.5)".into()],
            "/" => vec!["py_div((a)asf64,(b)asf64)".into(), "py_div(x,y)".into(), "py_div((n)asf64,2.5)".into(), "py_div(r,2.5)".into()],
            _ => vec![format!("a{}b", op), format!("x{}y", op), format!("(n)asf64{}2.5", op), format!("r{}2.5", op)],
        };
        let echo = { let mut a = v.clone(); a["source"] = json!(src); a };
        match &got {
            Ok(Ok(code)) => {
                let flat: String = code.chars().filter(|c| !c.is_whitespace()).collect::<String>().replace("2.5f64", "2.5").replace(",)", ")");
                let missing: Vec<&String> = musts.iter().filter(|m| !flat.contains(m.as_str())).collect();
                verdict(missing.is_empty(), json!({"missing_in_generated_code": missing}), json!(musts), &echo,
                        "an arithmetic expression inside an f-string gets the helper / promotion for its own operands' types")
            }
            Ok(Err(m)) => verdict(false, json!({"front_end_error": m}), json!(musts), &echo, "the program must compile"),
            Err(m) => verdict(false, json!({"panicked": m}), json!(musts), &echo, "front end must not panic"),
        }
    }

    pub fn emit_promotion(v: &Value) -> Value {
        let ops = ["+", "-", "*", "**"];
        let op = ops[v["op"].as_u64().unwrap() as usize % 4];
        let lforms = [("a", false), ("x", true), ("it.qty", false), ("it.price", true)];
        let rforms = [("a", false), ("x", true), ("it.qty", false), ("it.price", true), ("len(xs)", false), ("xs[0]", false), ("2", false), ("-2", false), ("b", false), ("64", false), ("19", false),
                      ("(it.qty)", false), ("(it.price)", true), ("(len(xs))", false)];
        let (l, lf) = lforms[v["l"].as_u64().unwrap() as usize % 4];
        let (r, rf) = rforms[v["r"].as_u64().unwrap() as usize % 14];
        // literal ** literal whose exact value does not fit i64 (`2 ** 64`, `10 ** 19`): still an int per the table
        let big_pow = r == "64" || r == "19";
        let l = if big_pow { if r == "64" { "2" } else { "10" } } else { l };
        let lf = if big_pow { false } else { lf };
        let compound = v["compound"].as_bool().unwrap();
        if op == "**" && compound { return verdict(true, json!(null), json!(null), v, "no `**=`"); }
        if op != "**" && (r == "2" || r == "-2" || r == "b" || big_pow) { return verdict(true, json!(null), json!(null), v, "literal / second-variable forms are used for ** only"); }
        if big_pow && v["l"].as_u64().unwrap() % 4 != 0 { return verdict(true, json!(null), json!(null), v, "literal base: one left form only"); }
        let float = if op == "**" { !(!lf && (r == "2" || big_pow)) } else { lf || rf };
        // `fieldtarget`: the compound assignment targets a FIELD of a local model value (`acc.total += r`), which the parser desugars
        let fieldtarget = compound && v["fieldtarget"].as_bool().unwrap_or(false);
        let (lname, lfloat) = if fieldtarget { (if lf { "acc.total" } else { "acc.n" }, lf) } else if compound { (if lf { "total" } else { "n" }, lf) } else { (l, lf) };
        if compound && float != lfloat { return verdict(true, json!(null), json!(null), v, "compound form would change the target's kind: rejected by the checker"); }
        if compound && l.contains('.') { return verdict(true, json!(null), json!(null), v, "compound target is a local"); }
        let stmt = if compound { format!("    {} {}= {}\n", lname, op, r) } else { format!("    q = {} {} {}\n", l, op, r) };
        // `shadow`: the statement sits in an inner block whose `total` / `n` shadow outer variables of the OTHER kind
        let shadow = v["shadow"].as_bool().unwrap_or(false);
        // `constshadow`: string constants with the names of the int / float variables exist at module level; the variables
        // of the function shadow them, so the arithmetic must still be numeric (never the const-folded `concat!`)
        let consts = if v["constshadow"].as_bool().unwrap_or(false) { "const a: str = \"s\"\nconst b: str = \"w\"\nconst x: str = \"t\"\nconst n: str = \"u\"\nconst total: str = \"v\"\n\n" } else { "" };
        let src = if shadow {
            format!("model Item:\n    qty: int\n    price: float\n\nmodel Acc:\n    total: float\n    n: int\n\ndef f(it: Item, xs: List[int], a: int, b: int, x: float, a0: Acc) -> None:\n    mut acc: Acc = a0\n    mut total: int = 1\n    mut n: float = 0.5\n    if a > 0:\n        mut total: float = 0.5\n        mut n: int = 1\n    {}\ndef main() -> None:\n    pass\n", stmt)
        } else {
            format!("model Item:\n    qty: int\n    price: float\n\nmodel Acc:\n    total: float\n    n: int\n\ndef f(it: Item, xs: List[int], a: int, b: int, x: float, a0: Acc) -> None:\n    mut acc: Acc = a0\n    mut total: float = 0.5\n    mut n: int = 1\n{}\ndef main() -> None:\n    pass\n", stmt)
        };
        let src = format!("{}{}", consts, src);
        let got = guarded(|| {
            let tokens = incan::frontend::lexer::lex(&src).map_err(|e| format!("lex: {:?}", e.first().map(|x| x.message.clone())))?;
            let prog = incan::frontend::parser::parse(&tokens).map_err(|e| format!("parse: {:?}", e.first().map(|x| x.message.clone())))?;
            incan::IrCodegen::new().try_generate(&prog).map_err(|e| format!("codegen: {}", e))
        });
        let echo = { let mut a = v.clone(); a["source"] = json!(src); a };
        match &got {
            Ok(Ok(code)) => {
                let flat: String = code.split_whitespace().collect::<Vec<_>>().join(" ");
                let key = if compound { format!("{} = {} ", lname, lname) } else { "let q = ".to_string() };
                let Some(i) = flat.find(&key) else { return verdict(false, json!({"statement": null}), json!("the statement in the generated code"), &echo, "statement not found in the generated code"); };
                let start = if compound { i + lname.len() + 3 } else { i + key.len() };
                let rest = &flat[start..];
                let expr = &rest[..rest.find(';').unwrap_or(rest.len())];
                if op == "**" {
                    let ok = if !float { expr.contains(".pow(") && !expr.contains("powf") && !expr.contains("f64") } else { expr.contains(".powf(") && (lf || expr.starts_with('(')) };
                    return verdict(ok, json!({"expr": expr}), json!({"kind": if float { "float: powf with the int operands promoted" } else { "int: pow" }}), &echo, "`**`: the computed value has the table's kind");
                }
                // split at the top-level ` op `
                let pat = format!(" {} ", op);
                let (mut depth, mut cut) = (0i32, None);
                let b: Vec<char> = expr.chars().collect();
                for k in 0..b.len() {
                    match b[k] { '(' | '[' => depth += 1, ')' | ']' => depth -= 1, _ => {} }
                    if depth == 0 && expr[k..].starts_with(&pat) && cut.is_none() && k > 0 { cut = Some(k); }
                }
                let Some(c) = cut else { return verdict(false, json!({"expr": expr}), json!("L op R"), &echo, "infix operator not found at top level"); };
                let (le, re) = (expr[..c].trim(), expr[c + pat.len()..].trim());
                let conv = |e: &str| e.ends_with("as f64") || e.starts_with("f64::from") || e.ends_with(".into()") || e.starts_with("f64 :: from");
                let (lp, rp) = (conv(le), conv(re));
                let want = (float && !lfloat, float && !rf);
                verdict((lp, rp) == want, json!({"expr": expr, "promoted": [lp, rp]}), json!({"promoted": [want.0, want.1]}), &echo,
                        "generated expression: exactly the int operands of a float operation are promoted")
            }
            Ok(Err(m)) => {
                // pre-existing, outside C07: `int ** <non-literal or negative literal>` produces no program at all ("casts cannot be followed by a method call")
                if op == "**" && m.contains("casts cannot be followed by a method call") { return verdict(true, json!({"front_end_error": m}), json!(null), &echo, "no program is generated (tolerated: nothing of the wrong kind is computed)"); }
                verdict(false, json!({"front_end_error": m}), json!("a program"), &echo, "a well-typed arithmetic statement must compile")
            }
            Err(m) => verdict(false, json!({"panicked": m}), json!("a program"), &echo, "front end must not panic"),
        }
    }

    /// C19 bounded stand-in for compile_error_to_diagnostic (lsp_types::Diagnostic/Url values: outside the verifier's
    /// reach): the published range and every related-information range lie inside the document with start <= end.
    pub fn diagnostic_range(v: &Value) -> Value {
        use incan::frontend::diagnostics::CompileError;
        use incan::frontend::ast::Span;
        let s = v["s"].as_str().unwrap().to_string();
        let (a, b) = (super::gu(v, "start"), super::gu(v, "end"));
        if a == usize::MAX { return verdict(true, json!(null), json!(null), v, "start == usize::MAX is outside the stated input invariant (A3)"); }
        let got = guarded(|| {
            let uri = tower_lsp::lsp_types::Url::parse("file:///t.incn").unwrap();
            let err = CompileError::new("m".to_string(), Span { start: a, end: b }).with_note("n").with_hint("h");
            let d = incan::lsp::diagnostics::compile_error_to_diagnostic(&err, &s, &uri);
            let mut rs = vec![((d.range.start.line as u64, d.range.start.character as u64), (d.range.end.line as u64, d.range.end.character as u64))];
            for ri in d.related_information.unwrap_or_default() { rs.push(((ri.location.range.start.line as u64, ri.location.range.start.character as u64), (ri.location.range.end.line as u64, ri.location.range.end.character as u64))); }
            rs
        });
        let doc_end = super::pos_of(&s, s.chars().count());
        let ok = matches!(&got, Ok(rs) if rs.iter().all(|(st, en)| st <= en && *en <= doc_end));
        verdict(ok, match &got { Ok(rs) => json!({"ranges": rs.iter().map(|(a, b)| json!([[a.0, a.1], [b.0, b.1]])).collect::<Vec<_>>()}), Err(m) => json!({"panicked": m}) },
                json!({"every_range": "start <= end <= end of document", "doc_end": [doc_end.0, doc_end.1]}), v, "published diagnostic ranges lie inside the document with start <= end")
    }

    /// C05 bounded stand-in for the call site of the runtime `range`: `range(e)`, `range(s, e)`, `range(s, e, k)` in a
    /// for loop must become `incan_stdlib::iter::range(start, end, step)` with the written arguments in the written
    /// positions and the documented defaults (start 0, step 1).
    /// C19 bounded stand-in for the command-line path (read_source -> lexer / parser -> format_error): the file is written to
    /// disk and checked with the real `incan::cli::commands::check_file`; the `--> file:line:col` of every reported error must
    /// name a line of THAT file and a column on it — also when the file has no final newline and the error is at its end.
    pub fn cli_check_location(v: &Value) -> Value {
        let docs: [&str; 6] = ["def f() -> int:\n  return (1 +", "def f() -> int:", "def main() -> None:\n    x: int = 1 +", "def main() -> None:\n    x = \"ééé\" + $",
                               "def f() -> int:\n  return (1 +\n", "x = $"];
        let text = docs[v["doc"].as_u64().unwrap_or(0) as usize % docs.len()].to_string();
        let dir = std::env::temp_dir().join(format!("verif_c19_cli_{}_{}", std::process::id(), v["doc"]));
        let _ = std::fs::remove_dir_all(&dir);
        if std::fs::create_dir_all(&dir).is_err() { return json!({"error": "cannot create a scratch directory"}); }
        let path = dir.join("a.incn");
        let _ = std::fs::write(&path, &text);
        let p2 = path.to_string_lossy().to_string();
        let got = guarded(move || match incan::cli::commands::check_file(&p2) { Ok(_) => String::new(), Err(e) => e.message });
        let _ = std::fs::remove_dir_all(&dir);
        let echo = json!({"doc": v["doc"], "text": text});
        match &got {
            Ok(msg) => {
                let plain: String = { let mut o = String::new(); let mut esc = false; for ch in msg.chars() { if esc { if ch == 'm' { esc = false; } } else if ch == '\u{1b}' { esc = true; } else { o.push(ch); } } o };
                let lines: Vec<&str> = text.split('\n').collect();
                let mut locs = Vec::new(); let mut bad = Vec::new();
                for l in plain.lines() {
                    if let Some(i) = l.find("--> ") {
                        let loc = l[i + 4..].trim();
                        let parts: Vec<&str> = loc.rsplitn(3, ':').collect();
                        if let (Some(c), Some(ln)) = (parts.get(0).and_then(|x| x.parse::<usize>().ok()), parts.get(1).and_then(|x| x.parse::<usize>().ok())) {
                            locs.push(json!([ln, c]));
                            // a line of the file (the text after a final newline counts as a last, empty line), a column on it or just past its end
                            let ok = ln >= 1 && ln <= lines.len() && c >= 1 && c <= lines[ln - 1].chars().count() + 1;
                            if !ok { bad.push(json!([ln, c])); }
                        }
                    }
                }
                verdict(bad.is_empty() && !locs.is_empty(), json!({"reported": locs, "outside_the_file": bad}), json!({"lines_in_file": lines.len(), "every location": "1 <= line <= lines, 1 <= col <= chars(line) + 1"}), &echo,
                        "locations printed by the command-line checker lie inside the file that was read")
            }
            Err(m) => verdict(false, json!({"panicked": m}), json!("no panic"), &echo, "the command-line checker must not panic"),
        }
    }

    pub fn emit_range(v: &Value) -> Value {
        let forms = ["var", "zero", "neg", "two", "expr"];
        let txt = |f: &str, var: &str| -> String { match f { "var" => var.to_string(), "zero" => "0".to_string(), "neg" => "-3".to_string(), "two" => "2".to_string(), _ => format!("{} + 1", var) } };
        let arity = v["arity"].as_u64().unwrap() as usize;     // 1, 2 or 3
        let (fa, fb, fc) = (forms[v["a"].as_u64().unwrap() as usize % 5], forms[v["b"].as_u64().unwrap() as usize % 5], forms[v["c"].as_u64().unwrap() as usize % 5]);
        let (a, b, c) = (txt(fa, "st"), txt(fb, "en"), txt(fc, "sp"));
        let args = match arity { 1 => b.clone(), 2 => format!("{}, {}", a, b), _ => format!("{}, {}, {}", a, b, c) };
        let src = format!("def main() -> None:\n    st: int = 1\n    en: int = 9\n    sp: int = 2\n    for i in range({}):\n        println(i)\n", args);
        let got = guarded(|| {
            let tokens = incan::frontend::lexer::lex(&src).map_err(|e| format!("lex: {:?}", e.first().map(|x| x.message.clone())))?;
            let prog = incan::frontend::parser::parse(&tokens).map_err(|e| format!("parse: {:?}", e.first().map(|x| x.message.clone())))?;
            incan::IrCodegen::new().try_generate(&prog).map_err(|e| format!("codegen: {}", e))
        });
        let echo = { let mut a = v.clone(); a["source"] = json!(src); a };
        // an argument is judged by meaning: it must mention the written operand's tokens; a default must be the literal
        let want: Vec<Option<String>> = match arity { 1 => vec![None, Some(norm(&b)), None], 2 => vec![Some(norm(&a)), Some(norm(&b)), None], _ => vec![Some(norm(&a)), Some(norm(&b)), Some(norm(&c))] };
        match &got {
            Ok(Ok(code)) => {
                let flat: String = code.split_whitespace().collect::<Vec<_>>().join(" ").replace(" :: ", "::");
                let got_args = call_args(&flat, "incan_stdlib::iter::range").map(|x| x.iter().map(|y| norm(y)).collect::<Vec<_>>());
                let ok = match &got_args {
                    Some(g) if g.len() == 3 => {
                        let pos_ok = |gi: &str, w: &Option<String>, default: &str| match w { Some(t) => gi.contains(t.as_str()), None => gi == default || gi == format!("{}asi64", default) || gi == format!("{}i64", default) };
                        pos_ok(&g[0], &want[0], "0") && pos_ok(&g[1], &want[1], "?") && pos_ok(&g[2], &want[2], "1")
                    }
                    _ => false,
                };
                verdict(ok, json!({"range_call_args": got_args}), json!({"args (start, end, step); None = documented default": want}), &echo, "generated call of the runtime range: written arguments in written positions, defaults 0 and 1")
            }
            Ok(Err(m)) => verdict(false, json!({"front_end_error": m}), json!("a program"), &echo, "a for loop over range must compile"),
            Err(m) => verdict(false, json!({"panicked": m}), json!("a program"), &echo, "front end must not panic"),
        }
    }

    /// C19 bounded stand-in for the formatter's error path (format_source -> format_error -> get_line_info): the location
    /// printed for a lexer error agrees with counting newlines and characters in the text that was given.
    pub fn fmt_error_location(v: &Value) -> Value {
        let prefixes = ["", "\u{feff}", "# é\n", "\u{feff}# 😀\n", "\r\n"];
        let pre = prefixes[v["prefix"].as_u64().unwrap() as usize % prefixes.len()];
        let lead = ["", "x = ", "    "][v["lead"].as_u64().unwrap() as usize % 3];
        let src = format!("{}y = 1\n{}!\n", pre, lead);
        let at = src.find('!').unwrap();
        let before = &src[..at];
        let line = 1 + before.matches('\n').count();
        let col = before.chars().count() - before.rfind('\n').map(|i| before[..i + 1].chars().count()).unwrap_or(0) + 1;
        let got = guarded(|| incan::format_source(&src).map_err(|e| e.to_string()));
        let echo = { let mut a = v.clone(); a["source"] = json!(src); a };
        match &got {
            Ok(Err(msg)) => {
                // first `<input>:L:C`
                let loc = msg.split("<input>:").nth(1).map(|r| r.split(|c: char| !(c.is_ascii_digit() || c == ':')).next().unwrap_or("").to_string()).unwrap_or_default();
                let parts: Vec<usize> = loc.split(':').filter_map(|x| x.parse().ok()).collect();
                // a leading BOM is itself an unexpected character for the lexer: then the first error may be reported at 1:1
                let bom = src.starts_with('\u{feff}');
                let ok = parts.len() >= 2 && ((parts[0] == line && parts[1] == col) || (bom && parts[0] == 1 && parts[1] == 1));
                verdict(ok, json!({"reported": loc}), json!({"line": line, "col": col, "or_the_BOM_itself_at": if bom { "1:1" } else { "-" }}), &echo, "formatter error location agrees with counting newlines and characters")
            }
            Ok(Ok(_)) => verdict(false, json!("formatted without error"), json!("a syntax error at the `!`"), &echo, "the stray `!` must be reported"),
            Err(m) => verdict(false, json!({"panicked": m}), json!("an error message"), &echo, "the formatter must not panic"),
        }
    }

    pub fn emit_slice(v: &Value) -> Value {
        // extra index forms: element assignment `xs[i] = 5` (list_get_mut) and dict read `d[k]` (dict_get)
        if let Some(kind) = v["index_kind"].as_str() {
            let idx = bound_src(v["start"].as_str().unwrap_or("var"), "st").unwrap_or("st".to_string());
            if kind == "context" {
                // index / slice forms in further statement contexts: a nested assignment target, a `for` loop over a slice with
                // literal bounds, and a read of a variable bound to a `match` expression over lists
                let ctx = v["ctx"].as_u64().unwrap_or(0) % 6;
                let (body, musts): (&str, Vec<&str>) = match ctx {
                    0 => ("    mut g: List[List[int]] = grid\n    g[r][c] = 5\n", vec!["list_get_mut(&mut*incan_stdlib::collections::list_get_mut(&mutg,rasi64),casi64)=5"]),
                    1 => ("    for x in xs[2:]:\n        println(x)\n", vec!["incan_stdlib::collections::list_slice(&xs,Some(2asi64),None,None)"]),
                    2 => ("    for x in xs[:2]:\n        println(x)\n", vec!["incan_stdlib::collections::list_slice(&xs,None,Some(2asi64),None)"]),
                    3 => ("    for x in xs[1:3]:\n        println(x)\n", vec!["incan_stdlib::collections::list_slice(&xs,Some(1asi64),Some(3asi64),None)"]),
                    4 => ("    for ch in s[1:]:\n        println(ch)\n", vec!["incan_stdlib::strings::str_slice(&s,Some(1asi64),None,None)"]),
                    _ => ("    rows = match opt:\n        Some(ys) => ys\n        None => []\n    println(rows[st])\n", vec!["incan_stdlib::collections::list_get(&rows,stasi64)"]),
                };
                let src = format!("def f(grid: List[List[int]], xs: List[int], s: str, opt: Option[List[int]], r: int, c: int, st: int) -> None:\n{}\ndef main() -> None:\n    pass\n", body);
                let got = guarded(|| {
                    let tokens = incan::frontend::lexer::lex(&src).map_err(|e| format!("lex: {:?}", e.first().map(|x| x.message.clone())))?;
                    let prog = incan::frontend::parser::parse(&tokens).map_err(|e| format!("parse: {:?}", e.first().map(|x| x.message.clone())))?;
                    incan::IrCodegen::new().try_generate(&prog).map_err(|e| format!("codegen: {}", e))
                });
                let echo = { let mut a = v.clone(); a["source"] = json!(src); a };
                return match &got {
                    Ok(Ok(code)) => {
                        // compare modulo whitespace, trailing commas of the pretty-printer, and the spelling of the i64 conversion of a
                        // simple operand: `(x) as i64`, `x as i64`, `i64::from(x)` all become `xasi64`
                        let mut flat: String = code.chars().filter(|c| !c.is_whitespace()).collect::<String>().replace(",)", ")");
                        for x in ["r", "c", "st", "1", "2", "3"] {
                            flat = flat.replace(&format!("i64::from({})", x), &format!("{}asi64", x)).replace(&format!("({})asi64", x), &format!("{}asi64", x))
                                       .replace(&format!("({}).into()", x), &format!("{}asi64", x));
                        }
                        let missing: Vec<&str> = musts.iter().filter(|m| !flat.contains(**m)).cloned().collect();
                        verdict(missing.is_empty(), json!({"missing_in_generated_code": missing}), json!(musts), &echo,
                                "the index / slice form goes through the runtime helper with the written operands also in this statement context")
                    }
                    Ok(Err(m)) => verdict(false, json!({"front_end_error": m}), json!(musts), &echo, "an index form must compile"),
                    Err(m) => verdict(false, json!({"panicked": m}), json!(musts), &echo, "front end must not panic"),
                };
            }
            if kind == "fstring" {
                // index / slice reads inside f-strings: the sub-expressions of different f-strings have the SAME spans (each is
                // lexed from offset 0), so a type looked up by span may belong to another expression; every read must still go
                // through the helper for ITS object's type
                let slice = v["slice"].as_bool().unwrap_or(false);
                let sub = if slice { "st:" } else { "st" };
                let src = format!("def f(xs: List[int], nm: str, st: int) -> None:\n    println(f\"{{xs[{}]}}\")\n    println(f\"{{nm[{}]}}\")\n\ndef main() -> None:\n    pass\n", sub, sub);
                let got = guarded(|| {
                    let tokens = incan::frontend::lexer::lex(&src).map_err(|e| format!("lex: {:?}", e.first().map(|x| x.message.clone())))?;
                    let prog = incan::frontend::parser::parse(&tokens).map_err(|e| format!("parse: {:?}", e.first().map(|x| x.message.clone())))?;
                    incan::IrCodegen::new().try_generate(&prog).map_err(|e| format!("codegen: {}", e))
                });
                let echo = { let mut a = v.clone(); a["source"] = json!(src); a };
                let (lh, sh) = if slice { ("incan_stdlib::collections::list_slice(&xs", "incan_stdlib::strings::str_slice(&nm") } else { ("incan_stdlib::collections::list_get(&xs", "incan_stdlib::strings::str_index(&nm") };
                return match &got {
                    Ok(Ok(code)) => {
                        let flat: String = code.split_whitespace().collect::<Vec<_>>().join("").replace("&mut", "&");
                        let ok = flat.contains(lh) && flat.contains(sh);
                        verdict(ok, json!({"list_helper_on_list": flat.contains(lh), "str_helper_on_str": flat.contains(sh)}), json!([lh, sh]), &echo,
                                "index / slice reads inside f-strings use the helper for their own object's type")
                    }
                    Ok(Err(m)) => verdict(false, json!({"front_end_error": m}), json!([lh, sh]), &echo, "an index form must compile"),
                    Err(m) => verdict(false, json!({"panicked": m}), json!([lh, sh]), &echo, "front end must not panic"),
                };
            }
            if kind == "object" {
                // the indexed / sliced object is a field or a call result (its type is known to the checker only): the read must
                // still go through the helper for the object's type, with the object first and the written index / bound after it
                let objs = [("b.xs", false), ("b.name", true), ("mk()", false), ("word()", true)];
                let (obj, is_str) = objs[v["obj"].as_u64().unwrap_or(0) as usize % 4];
                let slice = v["slice"].as_bool().unwrap_or(false);
                let src = format!("model Bag:\n    xs: List[int]\n    name: str\n\ndef mk() -> List[int]:\n    return [1, 2, 3]\n\ndef word() -> str:\n    return \"hello\"\n\ndef f(b: Bag, st: int) -> None:\n    r = {}[{}]\n\ndef main() -> None:\n    pass\n", obj, if slice { "st:" } else { "st" });
                let helper = match (is_str, slice) { (true, false) => "incan_stdlib::strings::str_index", (false, false) => "incan_stdlib::collections::list_get",
                                                     (true, true) => "incan_stdlib::strings::str_slice", (false, true) => "incan_stdlib::collections::list_slice" };
                let got = guarded(|| {
                    let tokens = incan::frontend::lexer::lex(&src).map_err(|e| format!("lex: {:?}", e.first().map(|x| x.message.clone())))?;
                    let prog = incan::frontend::parser::parse(&tokens).map_err(|e| format!("parse: {:?}", e.first().map(|x| x.message.clone())))?;
                    incan::IrCodegen::new().try_generate(&prog).map_err(|e| format!("codegen: {}", e))
                });
                let echo = { let mut a = v.clone(); a["source"] = json!(src); a };
                return match &got {
                    Ok(Ok(code)) => {
                        let flat: String = code.split_whitespace().collect::<Vec<_>>().join(" ").replace(" :: ", "::");
                        let args = call_args(&flat, helper).map(|a| a.iter().map(|x| norm(x)).collect::<Vec<_>>());
                        let ok = matches!(&args, Some(a) if a.len() >= 2 && a[0].contains(&norm(obj)) && a[1].contains("st"));
                        verdict(ok, json!({"helper_call_args": args}), json!({"helper": helper, "args": [obj, "st", ".."]}), &echo,
                                "an index / slice read of a field or call result goes through the runtime helper for its type (never raw Rust indexing)")
                    }
                    Ok(Err(m)) => verdict(false, json!({"front_end_error": m}), json!({"helper": helper}), &echo, "an index form must compile"),
                    Err(m) => verdict(false, json!({"panicked": m}), json!({"helper": helper}), &echo, "front end must not panic"),
                };
            }
            if kind == "nested" || kind == "dict_compound" {
                // `grid[r][c]`: BOTH levels go through list_get; `d[k] -= 1`: the old value is read through dict_get (KeyError for a missing key)
                let stmt = if kind == "nested" { "    g = grid[r][c]\n" } else { "    counts[k] -= 1\n" };
                let src = format!("def f(grid: List[List[int]], r: int, c: int, k: str) -> None:\n    mut counts: Dict[str, int] = {{\"a\": 1}}\n{}\ndef main() -> None:\n    pass\n", stmt);
                let got = guarded(|| {
                    let tokens = incan::frontend::lexer::lex(&src).map_err(|e| format!("lex: {:?}", e.first().map(|x| x.message.clone())))?;
                    let prog = incan::frontend::parser::parse(&tokens).map_err(|e| format!("parse: {:?}", e.first().map(|x| x.message.clone())))?;
                    incan::IrCodegen::new().try_generate(&prog).map_err(|e| format!("codegen: {}", e))
                });
                let echo = { let mut a = v.clone(); a["source"] = json!(src); a };
                return match &got {
                    Ok(Ok(code)) => {
                        let flat: String = code.split_whitespace().collect::<Vec<_>>().join(" ").replace(" :: ", "::");
                        let (n_get, n_dict) = (flat.matches("incan_stdlib::collections::list_get(").count(), flat.matches("incan_stdlib::collections::dict_get(").count());
                        let ok = if kind == "nested" { n_get == 2 } else { n_dict >= 1 };
                        verdict(ok, json!({"list_get_calls": n_get, "dict_get_calls": n_dict}), json!(if kind == "nested" { "two list_get calls (outer and inner index)" } else { "the old value is read with dict_get" }), &echo,
                                "every index read goes through the runtime helper that implements Python's semantics and errors")
                    }
                    Ok(Err(m)) => verdict(false, json!({"front_end_error": m}), json!("a program"), &echo, "an index form must compile"),
                    Err(m) => verdict(false, json!({"panicked": m}), json!("a program"), &echo, "front end must not panic"),
                };
            }
            let (stmt, helper, want0, want1): (String, &str, &str, String) = match kind {
                "assign" => (format!("    xs[{}] = 5\n", idx), "incan_stdlib::collections::list_get_mut", "mutxs", norm(&idx)),
                _ => ("    r = d[k]\n".to_string(), "incan_stdlib::collections::dict_get", "d", "k".to_string()),
            };
            let src = format!("def main() -> None:\n    mut xs: List[int] = [1, 2, 3]\n    d: Dict[str, int] = {{\"a\": 1}}\n    k: str = \"a\"\n    st: int = 1\n{}", stmt);
            let got = guarded(|| {
                let tokens = incan::frontend::lexer::lex(&src).map_err(|e| format!("lex: {:?}", e.first().map(|x| x.message.clone())))?;
                let prog = incan::frontend::parser::parse(&tokens).map_err(|e| format!("parse: {:?}", e.first().map(|x| x.message.clone())))?;
                incan::IrCodegen::new().try_generate(&prog).map_err(|e| format!("codegen: {}", e))
            });
            let echo = { let mut a = v.clone(); a["source"] = json!(src); a };
            return match &got {
                Ok(Ok(code)) => {
                    let flat: String = code.split_whitespace().collect::<Vec<_>>().join(" ").replace(" :: ", "::");
                    let args = call_args(&flat, helper).map(|a| a.iter().map(|x| norm(x)).collect::<Vec<_>>());
                    let ok = matches!(&args, Some(a) if a.len() == 2 && a[0].contains(want0) && a[1].contains(want1.as_str()));
                    verdict(ok, json!({"helper_call_args": args}), json!({"helper": helper, "args": [want0, want1]}), &echo, "generated call: documented helper, container and index/key in their positions")
                }
                Ok(Err(m)) => verdict(false, json!({"front_end_error": m}), json!({"helper": helper}), &echo, "an index form must compile"),
                Err(m) => verdict(false, json!({"panicked": m}), json!({"helper": helper}), &echo, "front end must not panic"),
            };
        }
        let is_str = v["target"].as_str() == Some("str");
        let compact = v["compact"].as_bool().unwrap_or(true);
        let index_only = v["index"].as_bool().unwrap_or(false);
        let (st, en, sp) = (bound_src(v["start"].as_str().unwrap_or("none"), "st"), bound_src(v["end"].as_str().unwrap_or("none"), "en"), bound_src(v["step"].as_str().unwrap_or("none"), "sp"));
        let tname = if is_str { "s" } else { "xs" };
        let sub = if index_only {
            st.clone().unwrap_or("st".to_string())
        } else {
            let sep = if compact { ":" } else { " : " };
            let mut t = format!("{}{}{}", st.clone().unwrap_or_default(), sep, en.clone().unwrap_or_default());
            if sp.is_some() { t = format!("{}{}{}", t, sep, sp.clone().unwrap()); }
            t
        };
        let src = format!("def main() -> None:\n    s: str = \"hello\"\n    xs: List[int] = [1, 2, 3]\n    st: int = 1\n    en: int = 4\n    sp: int = 2\n    r = {}[{}]\n", tname, sub);
        let got = guarded(|| {
            let tokens = incan::frontend::lexer::lex(&src).map_err(|e| format!("lex: {:?}", e.first().map(|x| x.message.clone())))?;
            let prog = incan::frontend::parser::parse(&tokens).map_err(|e| format!("parse: {:?}", e.first().map(|x| x.message.clone())))?;
            incan::IrCodegen::new().try_generate(&prog).map_err(|e| format!("codegen: {}", e))
        });
        let helper = match (is_str, index_only) { (true, true) => "incan_stdlib::strings::str_index", (false, true) => "incan_stdlib::collections::list_get",
                                                  (true, false) => "incan_stdlib::strings::str_slice", (false, false) => "incan_stdlib::collections::list_slice" };
        // An argument is judged by meaning, not spelling: an omitted bound must be `None`; a written bound must be a
        // `Some(..)` that mentions the written operand (any conversion spelling: `(x) as i64`, `i64::from(x)`, `x.into()`).
        let bound_ok = |got: &str, want: &Option<String>| -> bool {
            match want { None => got == "None", Some(x) => got.starts_with("Some") && got.contains(&norm(x)) }
        };
        let idx_ok = |got: &str, want: &str| -> bool { !got.starts_with("Some") && got != "None" && got.contains(&norm(want)) };
        let expected: Vec<String> = if index_only { vec![format!("&{}", tname), format!("<index {}>", st.clone().unwrap_or("st".to_string()))] }
                                    else { vec![format!("&{}", tname), format!("{:?}", st), format!("{:?}", en), format!("{:?}", sp)] };
        let args_echo = { let mut a = v.clone(); a["source"] = json!(src); a };
        match &got {
            Ok(Ok(code)) => {
                let flat: String = code.split_whitespace().collect::<Vec<_>>().join(" ").replace(" :: ", "::");
                let args = call_args(&flat, helper).map(|a| a.iter().map(|x| norm(x)).collect::<Vec<_>>());
                let ok = match &args {
                    Some(a) if index_only => a.len() == 2 && a[0].contains(tname) && idx_ok(&a[1], &st.clone().unwrap_or("st".to_string())),
                    Some(a) => a.len() == 4 && a[0].contains(tname) && bound_ok(&a[1], &st) && bound_ok(&a[2], &en) && bound_ok(&a[3], &sp),
                    None => false,
                };
                verdict(ok, json!({"helper_call_args": args}), json!({"helper": helper, "args (target, start, end, step)": expected}), &args_echo, "generated call: documented helper, every written bound in its position, None exactly for an omitted bound")
            }
            Ok(Err(m)) => {
                // (until fix 32617e3 the compact forms `[::step]` / `[a::step]` failed here: `::` is lexed as one token)
                verdict(false, json!({"front_end_error": m}), json!({"helper": helper, "args": expected}), &args_echo, "a documented slice form must compile")
            }
            Err(m) => verdict(false, json!({"panicked": m}), json!({"helper": helper}), &args_echo, "front end must not panic"),
        }
    }
}

#[cfg(feature = "lsp")]
mod c07 {
    //! C07 oracles on the real `incan` crate: the three exponent classifiers and the emitter's plan, on
    //! syntax-tree / IR values built from a small description.
    use super::{guarded, verdict};
    use incan::backend::ir::conversions::{determine_binop_plan, BinOpEmitKind, NumericConversion};
    use incan::backend::ir::expr::{BinOp, IrExprKind, TypedExpr, UnaryOp as IrUnaryOp, VarAccess, VarRefKind};
    use incan::backend::ir::types::IrType;
    use incan::frontend::ast::{Expr, Literal, Span, Spanned, UnaryOp};
    use incan::frontend::symbols::ResolvedType;
    use incan::numeric_adapters::{pow_exponent_kind_from_ast, pow_exponent_kind_from_ir};
    use serde_json::{json, Value};

    /// shape: sequence of wrappers applied to a base; base = {"int": n} | {"var": "x"} ; wrappers "neg" | "paren"
    fn build_ast(v: &Value) -> Spanned<Expr> {
        let base = if let Some(n) = v["base"].get("int") { Expr::Literal(Literal::Int(n.as_i64().unwrap())) } else { Expr::Ident("x".to_string()) };
        let mut e = Spanned::new(base, Span::default());
        for w in v["wrap"].as_array().unwrap() {
            e = match w.as_str().unwrap() {
                "neg" => Spanned::new(Expr::Unary(UnaryOp::Neg, Box::new(e)), Span::default()),
                _ => Spanned::new(Expr::Paren(Box::new(e)), Span::default()),
            };
        }
        e
    }
    fn spec_ast_literal(v: &Value) -> Option<i64> {
        // a literal, optionally negated once, optionally parenthesised (parentheses outside and inside the minus? only outside)
        let wraps: Vec<&str> = v["wrap"].as_array().unwrap().iter().map(|w| w.as_str().unwrap()).collect();
        let n = v["base"].get("int")?.as_i64()?;
        // inner-to-outer: the minus (if any) must be applied directly to the literal; everything else must be parens
        match wraps.iter().position(|w| *w == "neg") {
            None => Some(n),
            Some(0) if wraps[1..].iter().all(|w| *w == "paren") => Some(-n),
            _ => None,
        }
    }
    fn build_ir(v: &Value, ty: IrType) -> TypedExpr {
        let base = if let Some(n) = v["base"].get("int") { IrExprKind::Int(n.as_i64().unwrap()) } else {
            IrExprKind::Var { name: "x".to_string(), access: VarAccess::default(), ref_kind: VarRefKind::default() } };
        let mut e = TypedExpr::new(base, ty.clone());
        for w in v["wrap"].as_array().unwrap() {
            if w.as_str().unwrap() == "neg" { e = TypedExpr::new(IrExprKind::UnaryOp { op: IrUnaryOp::Neg, operand: Box::new(e) }, ty.clone()); }
            // parentheses do not exist in the IR
        }
        e
    }
    fn spec_ir_literal(v: &Value) -> Option<i64> {
        let negs = v["wrap"].as_array().unwrap().iter().filter(|w| w.as_str().unwrap() == "neg").count();
        let n = v["base"].get("int")?.as_i64()?;
        match negs { 0 => Some(n), 1 => Some(-n), _ => None }
    }
    fn kind_name(is_float: bool, lit: Option<i64>) -> &'static str {
        if is_float { "Float" } else { match lit { Some(x) if x >= 0 => "NonNegativeIntLiteral", Some(_) => "NegativeIntLiteral", None => "Variable" } }
    }

    pub fn exponent_kind(v: &Value) -> Value {
        let is_float = v["float"].as_bool().unwrap_or(false);
        let e = build_ast(v);
        let rt = if is_float { ResolvedType::Float } else { ResolvedType::Int };
        let it = if is_float { IrType::Float } else { IrType::Int };
        let ir = build_ir(v, it);
        let got = guarded(|| (format!("{:?}", pow_exponent_kind_from_ast(&e, &rt)), format!("{:?}", pow_exponent_kind_from_ir(&ir))));
        let exp = (kind_name(is_float, spec_ast_literal(v)), kind_name(is_float, spec_ir_literal(v)));
        let ok = matches!(&got, Ok((a, b)) if a == exp.0 && b == exp.1);
        verdict(ok, match &got { Ok((a, b)) => json!({"from_ast": a, "from_ir": b}), Err(m) => json!({"panicked": m}) },
                json!({"from_ast": exp.0, "from_ir": exp.1}), v, "exponent classification (checker side on the syntax tree, emitter side on the IR)")
    }

    /// The real front end (lex + parse + check) on a generated program: an annotated binding
    /// `y: T = a <op> <rhs>` must be accepted iff T is the table's type (and `x: int = a / b` always rejected).
    pub fn static_type(v: &Value) -> Value {
        let ops = ["+", "-", "*", "/", "//", "%", "**"];
        let op = ops[v["op"].as_u64().unwrap() as usize % ops.len()];
        let lf = v["lfloat"].as_bool().unwrap();
        let rf = v["rfloat"].as_bool().unwrap();
        let ann_float = v["ann_float"].as_bool().unwrap();
        // exponent / right operand form
        let form = v["form"].as_str().unwrap();
        let (rhs, lit): (String, Option<i64>) = match form {
            "var" => ("b".to_string(), None),
            "const" => ("N".to_string(), None),           // a module-level const is NOT a literal
            "lit" => ("2".to_string(), Some(2)),
            "zero" => ("0".to_string(), Some(0)),
            "neg" => ("-2".to_string(), Some(-2)),
            "paren" => ("(3)".to_string(), Some(3)),
            "negneg" => ("-(-2)".to_string(), None),
            _ => ("b".to_string(), None),
        };
        // only the form "var" uses the parameter b (whose kind is rfloat); every other right operand is an int
        let rf = rf && form == "var";
        if (op == "/" || op == "//" || op == "%") && matches!(form, "zero") { return super::verdict(true, json!(null), json!(null), v, "literal zero divisor: skipped"); }
        let float = match op { "/" => true, "**" => !(!lf && !rf && matches!(lit, Some(n) if n >= 0)), _ => lf || rf };
        // annotation spelling: the registry's aliases are case-insensitive (`Int`, `FLOAT` are int / float)
        let spell = v["spell"].as_u64().unwrap_or(0);
        let ak_s = match (ann_float, spell) { (false, 0) => "int", (false, 1) => "Int", (false, _) => "INT", (true, 0) => "float", (true, 1) => "Float", (true, _) => "FLOAT" };
        let (lk, rk, ak) = (if lf { "float" } else { "int" }, if rf { "float" } else { "int" }, ak_s);
        // `wrap`: the whole right-hand side is parenthesised — must not change its type
        let wrapped = v["wrap"].as_bool().unwrap_or(false);
        let (po, pc) = if wrapped { ("(", ")") } else { ("", "") };
        let src = match v["position"].as_str().unwrap_or("let") {
            "return" => format!("const N: int = 2\n\ndef f(a: {}, b: {}) -> {}:\n    return {}a {} {}{}\n\ndef main() -> None:\n    pass\n", lk, rk, ak, po, op, rhs, pc),
            "const" => {
                // const initializer over literals and another const: `const X: T = 7 <op> <2 | N | -2>`
                if lf || rf || wrapped || !(form == "lit" || form == "const" || form == "neg") { return super::verdict(true, json!(null), json!(null), v, "const position: literal / const operands only, no parentheses (const initializers are restricted, phase 1)"); }
                format!("const N: int = 2\nconst X: {} = {}7 {} {}{}\n\ndef main() -> None:\n    pass\n", ak, po, op, rhs, pc)
            }
            // inside an `elif` branch (condition and body of an elif branch are checked like any other code)
            "elif" => format!("const N: int = 2\n\ndef f(a: {}, b: {}) -> None:\n    if a > 1000000:\n        pass\n    elif a > 0:\n        y: {} = {}a {} {}{}\n\ndef main() -> None:\n    pass\n", lk, rk, ak, po, op, rhs, pc),
            "arg" => format!("const N: int = 2\n\ndef g(v: {}) -> None:\n    pass\n\ndef f(a: {}, b: {}) -> None:\n    g({}a {} {}{})\n\ndef main() -> None:\n    pass\n", ak, lk, rk, po, op, rhs, pc),
            _ => format!("const N: int = 2\n\ndef f(a: {}, b: {}) -> None:\n    y: {} = {}a {} {}{}\n\ndef main() -> None:\n    pass\n", lk, rk, ak, po, op, rhs, pc),
        };
        let got = guarded(|| {
            let tokens = incan::frontend::lexer::lex(&src).map_err(|e| format!("lex: {:?}", e.first().map(|x| x.message.clone())))?;
            let prog = incan::frontend::parser::parse(&tokens).map_err(|e| format!("parse: {:?}", e.first().map(|x| x.message.clone())))?;
            Ok::<bool, String>(incan::frontend::typechecker::check(&prog).is_ok())
        });
        // accepted iff the annotation is the table's kind; int -> float widening of an int result is the only tolerated extra
        let must_accept = ann_float == float;
        // accepted iff the annotation is the table's kind: an int value under a float annotation would be an i64 at run time
        let must_reject = ann_float != float;
        let ok = match &got { Ok(Ok(acc)) => (!must_accept || *acc) && (!must_reject || !*acc), _ => false };
        let mut r = super::verdict(ok, match &got { Ok(Ok(a)) => json!({"accepted": a}), Ok(Err(m)) => json!({"front_end_error": m}), Err(m) => json!({"panicked": m}) },
                json!({"table_type": if float { "float" } else { "int" }, "must_accept": must_accept, "must_reject": must_reject}),
                &{ let mut a = v.clone(); a["source"] = json!(src); a }, "static type of an annotated binding follows the table");
        // known finding: call arguments are not checked against parameter types at all
        if !ok && v["position"].as_str() == Some("arg") && must_reject && matches!(&got, Ok(Ok(true))) { r["class"] = json!("C07-call-arguments-unchecked"); }
        r
    }

    /// Nested expressions ("nested to any depth"): a random arithmetic tree over int/float leaves, typed by applying the
    /// documented table bottom-up; the annotated binding must be accepted iff the annotation is that type
    /// (`int` for a float expression must be rejected; a comparison on top is `bool`).
    /// tree encoding: {"leaf": "a"|"x"|"2"|"-2"|"n.qty"...} | {"op": "+", "l": tree, "r": tree, "paren": bool}
    fn render(t: &Value) -> String {
        if let Some(l) = t.get("leaf") { return l.as_str().unwrap().to_string(); }
        let s = format!("{} {} {}", render(&t["l"]), t["op"].as_str().unwrap(), render(&t["r"]));
        if t["paren"].as_bool().unwrap_or(true) { format!("({})", s) } else { s }
    }
    /// (is_float, is a non-negative int literal possibly parenthesised)
    fn kind(t: &Value) -> (bool, bool) {
        if let Some(l) = t.get("leaf") {
            let l = l.as_str().unwrap();
            return (l == "x" || l == "it.price", l == "2" || l == "0");
        }
        let (lf, _) = kind(&t["l"]);
        let (rf, rlit) = kind(&t["r"]);
        let f = match t["op"].as_str().unwrap() { "/" => true, "**" => !(!lf && !rf && rlit), _ => lf || rf };
        (f, false)
    }
    /// C07 bounded stand-in for the typing of operands that come out of typed containers and builtins (zip / enumerate
    /// components, list elements, dict values, len()): the annotated binding `y: T = SRC <op> 2` is accepted iff T is the table's
    /// kind for (kind of SRC, int literal 2).
    pub fn static_type_sources(v: &Value) -> Value {
        let ops = ["+", "-", "*", "/", "//", "%", "**"];
        let op = ops[v["op"].as_u64().unwrap() as usize % ops.len()];
        let ann_float = v["ann_float"].as_bool().unwrap();
        // (operand text, is float, loop header or "")
        let sources: [(&str, bool, &str); 10] = [
            // an un-annotated module-level const declared BELOW the function that uses it (kind from its initializer)
            ("STEP", false, "const-below"), ("RATE", true, "const-below"),
            ("pair.0", false, "for pair in zip(xs, fs):"), ("pair.1", true, "for pair in zip(xs, fs):"),
            ("pair.0", false, "for pair in enumerate(fs):"), ("pair.1", true, "for pair in enumerate(fs):"),
            ("xs[0]", false, ""), ("fs[0]", true, ""), ("d[\"k\"]", true, ""), ("len(fs)", false, ""),
        ];
        let (srcx, sf, header) = sources[v["src"].as_u64().unwrap() as usize % 10];
        let below = header == "const-below";
        let header = if below { "" } else { header };
        let float = match op { "/" => true, "**" => sf, _ => sf };
        let ak = if ann_float { "float" } else { "int" };
        let body = if header.is_empty() { format!("    y: {} = {} {} 2\n", ak, srcx, op) } else { format!("    {}\n        y: {} = {} {} 2\n", header, ak, srcx, op) };
        let src = format!("def f(xs: List[int], fs: List[float], d: Dict[str, float]) -> None:\n{}\ndef main() -> None:\n    pass\n{}", body,
                          if below { "\nconst STEP = 2\nconst RATE = 2.5\n" } else { "" });
        let got = guarded(|| {
            let tokens = incan::frontend::lexer::lex(&src).map_err(|e| format!("lex: {:?}", e.first().map(|x| x.message.clone())))?;
            let prog = incan::frontend::parser::parse(&tokens).map_err(|e| format!("parse: {:?}", e.first().map(|x| x.message.clone())))?;
            Ok::<bool, String>(incan::frontend::typechecker::check(&prog).is_ok())
        });
        let must_accept = ann_float == float;
        let ok = match &got { Ok(Ok(acc)) => *acc == must_accept, _ => false };
        super::verdict(ok, match &got { Ok(Ok(a)) => json!({"accepted": a}), Ok(Err(m)) => json!({"front_end_error": m}), Err(m) => json!({"panicked": m}) },
                json!({"table_type": if float { "float" } else { "int" }, "must_accept": must_accept}), &{ let mut a = v.clone(); a["source"] = json!(src); a },
                "an operand taken out of a typed container / builtin has its element's numeric kind")
    }

    pub fn static_type_nested(v: &Value) -> Value {
        let tree = &v["tree"];
        let cmp = v["cmp"].as_str();                 // optional comparison on top: tree <cmp> leaf
        let ann = v["ann"].as_str().unwrap();         // int | float | bool
        let (f, _) = kind(tree);
        let mut text = render(tree);
        let ty = if let Some(c) = cmp { text = format!("{} {} {}", text, c, if v["cmp_float"].as_bool().unwrap_or(false) { "x" } else { "a" }); "bool" } else if f { "float" } else { "int" };
        let src = format!("model Item:\n    qty: int\n    price: float\n\ndef f(a: int, b: int, x: float, it: Item) -> None:\n    y: {} = {}\n\ndef main() -> None:\n    pass\n", ann, text);
        let got = guarded(|| {
            let tokens = incan::frontend::lexer::lex(&src).map_err(|e| format!("lex: {:?}", e.first().map(|x| x.message.clone())))?;
            let prog = incan::frontend::parser::parse(&tokens).map_err(|e| format!("parse: {:?}", e.first().map(|x| x.message.clone())))?;
            Ok::<bool, String>(incan::frontend::typechecker::check(&prog).is_ok())
        });
        let must_accept = ann == ty;
        let must_reject = (ann == "int" && ty == "float") || (ann == "bool") != (ty == "bool");
        let ok = match &got { Ok(Ok(acc)) => (!must_accept || *acc) && (!must_reject || !*acc), _ => false };
        super::verdict(ok, match &got { Ok(Ok(a)) => json!({"accepted": a}), Ok(Err(m)) => json!({"front_end_error": m}), Err(m) => json!({"panicked": m}) },
                json!({"table_type": ty, "must_accept": must_accept, "must_reject": must_reject}), &{ let mut a = v.clone(); a["source"] = json!(src); a },
                "static type of a nested expression follows the table bottom-up")
    }

    /// `x <op>= v` is checked as `x = x <op> v`: accepted iff the table's kind for (target, value) is the target's kind
    pub fn compound_assign(v: &Value) -> Value {
        let ops = ["+=", "-=", "*=", "/=", "//=", "%="];
        let op = ops[v["op"].as_u64().unwrap() as usize % ops.len()];
        let tf = v["target_float"].as_bool().unwrap();
        let vf = v["value_float"].as_bool().unwrap();
        let float = if op == "/=" { true } else { tf || vf };
        let tform = v["target"].as_str().unwrap_or("local");
        let (vk, tk) = (if vf { "float" } else { "int" }, if tf { "float" } else { "int" });
        let src = match tform {
            "field" => format!("model Acc:\n    slot: {}\n\ndef f(v: {}, a0: Acc) -> None:\n    mut acc: Acc = a0\n    acc.slot {} v\n\ndef main() -> None:\n    pass\n", tk, vk, op),
            "index" => format!("def f(v: {}, xs0: List[{}]) -> None:\n    mut xs: List[{}] = xs0\n    xs[0] {} v\n\ndef main() -> None:\n    pass\n", vk, tk, tk, op),
            _ => format!("def f(v: {}) -> None:\n    mut x: {} = {}\n    x {} v\n\ndef main() -> None:\n    pass\n", vk, tk, if tf { "1.5" } else { "10" }, op),
        };
        let got = guarded(|| {
            let tokens = incan::frontend::lexer::lex(&src).map_err(|e| format!("lex: {:?}", e.first().map(|x| x.message.clone())))?;
            let prog = incan::frontend::parser::parse(&tokens).map_err(|e| format!("parse: {:?}", e.first().map(|x| x.message.clone())))?;
            Ok::<bool, String>(incan::frontend::typechecker::check(&prog).is_ok())
        });
        let must_accept = tf == float;
        let must_reject = !tf && float;           // an int variable would change numeric kind at run time
        let ok = match &got { Ok(Ok(acc)) => (!must_accept || *acc) && (!must_reject || !*acc), _ => false };
        super::verdict(ok, match &got { Ok(Ok(a)) => json!({"accepted": a}), Ok(Err(m)) => json!({"front_end_error": m}), Err(m) => json!({"panicked": m}) },
                json!({"table_type": if float { "float" } else { "int" }, "must_accept": must_accept, "must_reject": must_reject}),
                &{ let mut a = v.clone(); a["source"] = json!(src); a }, "compound assignment never changes the numeric kind of its target")
    }

    const OPS: &[(&str, BinOp)] = &[("Add", BinOp::Add), ("Sub", BinOp::Sub), ("Mul", BinOp::Mul), ("Div", BinOp::Div), ("FloorDiv", BinOp::FloorDiv),
        ("Mod", BinOp::Mod), ("Pow", BinOp::Pow), ("Eq", BinOp::Eq), ("Ne", BinOp::Ne), ("Lt", BinOp::Lt), ("Le", BinOp::Le), ("Gt", BinOp::Gt), ("Ge", BinOp::Ge)];

    pub fn binop_plan(v: &Value) -> Value {
        let opi = v["op"].as_u64().unwrap() as usize % OPS.len();
        let (opn, op) = (OPS[opi].0, OPS[opi].1);
        let lf = v["lfloat"].as_bool().unwrap();
        let rf = v["rfloat"].as_bool().unwrap();
        if v["untyped"].as_bool().unwrap_or(false) {
            // operands whose static type is not int/float (e.g. untyped closure parameters): `/ // %` must still
            // go through the generic runtime helper of the SAME operator
            let l = TypedExpr::new(IrExprKind::Var { name: "a".to_string(), access: VarAccess::default(), ref_kind: VarRefKind::default() }, IrType::Unknown);
            let r = build_ir(&v["right"], if rf { IrType::Unknown } else { IrType::Int });
            let want = match opn { "Mod" => "call incan_stdlib :: num :: py_mod", "FloorDiv" => "call incan_stdlib :: num :: py_floor_div", "Div" => "call incan_stdlib :: num :: py_div", _ => "" };
            if want.is_empty() { return verdict(true, json!(null), json!(null), v, "not a division operator"); }
            let got = guarded(|| { let p = determine_binop_plan(&op, &l, &r); match &p.emit { BinOpEmitKind::StdlibCall { path } => format!("call {}", path), BinOpEmitKind::Infix { token } => format!("infix {}", token), BinOpEmitKind::Pow { .. } => "pow".to_string() } });
            return verdict(matches!(&got, Ok(e) if e == want), match &got { Ok(e) => json!({"emit": e}), Err(m) => json!({"panicked": m}) }, json!({"emit": want}),
                           &{ let mut a = v.clone(); a["op_name"] = json!(opn); a }, "untyped operands: the generic runtime helper of the same operator");
        }
        let left = TypedExpr::new(IrExprKind::Var { name: "a".to_string(), access: VarAccess::default(), ref_kind: VarRefKind::default() }, if lf { IrType::Float } else { IrType::Int });
        let right = build_ir(&v["right"], if rf { IrType::Float } else { IrType::Int });
        let lit = spec_ir_literal(&v["right"]);
        let k = if opn == "Pow" { Some(kind_name(rf, lit)) } else { None };
        // the documented table
        let float = match opn { "Div" => true, "Pow" => !(!lf && !rf && k == Some("NonNegativeIntLiteral")), _ => lf || rf };
        let helper = match opn {
            "Mod" => Some(if float { "incan_stdlib :: num :: py_mod_f64" } else { "incan_stdlib :: num :: py_mod_i64" }),
            "FloorDiv" => Some(if float { "incan_stdlib :: num :: py_floor_div_f64" } else { "incan_stdlib :: num :: py_floor_div_i64" }),
            "Div" => Some("incan_stdlib :: num :: py_div"), _ => None };
        let got = guarded(|| {
            let p = determine_binop_plan(&op, &left, &right);
            let emit = match &p.emit { BinOpEmitKind::StdlibCall { path } => format!("call {}", path), BinOpEmitKind::Infix { token } => format!("infix {}", token),
                                        BinOpEmitKind::Pow { result_is_int } => format!("pow int={}", result_is_int) };
            (matches!(p.lhs_conv, NumericConversion::ToFloat), matches!(p.rhs_conv, NumericConversion::ToFloat), format!("{:?}", p.result_ty), emit)
        });
        let exp_emit = match (opn, helper) { (_, Some(h)) => format!("call {}", h), ("Pow", _) => format!("pow int={}", !float), _ => String::new() };
        let exp = (float && !lf, float && !rf, if float { "Float" } else { "Int" });
        let ok = matches!(&got, Ok((a, b, t, e)) if *a == exp.0 && *b == exp.1 && t == exp.2 && (exp_emit.is_empty() && e.starts_with("infix") || *e == exp_emit));
        verdict(ok, match &got { Ok((a, b, t, e)) => json!({"promote": [a, b], "result": t, "emit": e}), Err(m) => json!({"panicked": m}) },
                json!({"promote": [exp.0, exp.1], "result": exp.2, "emit": if exp_emit.is_empty() { "infix <operator>".to_string() } else { exp_emit }}),
                &{ let mut a = v.clone(); a["op_name"] = json!(opn); a }, "emitter's plan: promotions, result kind, runtime helper")
    }
}

struct Rng(u64);
impl Rng { fn next(&mut self) -> u64 { self.0 ^= self.0 << 13; self.0 ^= self.0 >> 7; self.0 ^= self.0 << 17; self.0 } fn below(&mut self, n: u64) -> u64 { self.next() % n } }
const PIECES: &[&str] = &["a", "b", " ", "\n", "\r\n", "\r", "é", "日", "😀", "x = 1", "\t", "\u{0}", "ß", "\n\n", "𝒳"];
const DOCS: &[&str] = &["", "a", "\n", "a\nb", "a\r\nb\r\n", "é", "😀", "x = \"ééé\" + y", "s = \"a😀b\"\nt", "def foo():\r\n    pass\r\n", "\n\n\n", "ab\n", "日本語\nテスト",
                        "def f() -> int:\n\treturn $\n", "\t\té = y\n\tz"];
fn rdoc(r: &mut Rng, n: u64) -> String {
    if (n as usize) < DOCS.len() * 8 { return DOCS[(n as usize) / 8].to_string(); }
    let k = r.below(7); let mut s = String::new(); for _ in 0..k { s.push_str(PIECES[r.below(PIECES.len() as u64) as usize]); } s
}
fn roff(r: &mut Rng, s: &str) -> usize {
    match r.below(8) { 0 => s.len(), 1 => s.len() + 1, 2 => usize::MAX, 3 => usize::MAX - 1, 4 => 0, _ => if s.is_empty() { 0 } else { r.below(s.len() as u64 + 2) as usize } }
}
fn search(oracle: &str, seed: u64, budget: u64, skip: &[String]) -> Value {
    let mut r = Rng(seed.wrapping_mul(0x9E3779B97F4A7C15) | 1);
    let mut tried = 0;
    for n in 0..budget {
        let s = rdoc(&mut r, n);
        let a = match oracle {
            "lsp::offset_to_position" => json!({"s": s, "offset": roff(&mut r, &s)}),
            "lsp::round_trip" | "lsp::position_to_offset" | "lsp::monotone" => json!({"s": s, "k": r.below(s.chars().count() as u64 + 1)}),
            "syntax::format_error_location" => {
                // exhaustive: fixed documents x every start offset in 0..=len+1 plus two huge offsets (end = start)
                let d = DOCS[(n % DOCS.len() as u64) as usize];
                let q = (n / DOCS.len() as u64) % (d.len() as u64 + 4);
                let st = if q < d.len() as u64 + 2 { q as usize } else if q == d.len() as u64 + 2 { usize::MAX - 1 } else { usize::MAX / 2 };
                json!({"s": d, "start": st, "end": st})
            }
            "lsp::span_to_range" | "syntax::get_line_info" => { let a = roff(&mut r, &s); let b = roff(&mut r, &s); json!({"s": s, "start": a, "end": b}) }
            "incan::fstring_operands" => { let k = n % 12; json!({"op": k % 6, "swap": k / 6 == 1}) }
            "incan::multifile_index" => { let k = n % 8; json!({"kind": k % 4, "nested": k / 4 == 1}) }
            "incan::multifile_promotion" => { let k = n % 6; json!({"kind": 4 + k % 3, "nested": k / 3 == 1}) }
            "incan::static_type_sources" => { let k = n % 140; json!({"op": k % 7, "ann_float": (k / 7) % 2 == 1, "src": k / 14}) }
            "incan::static_type_nested" => {
                // pseudo-random trees of depth <= 3 (seeded): bounded sample, not exhaustive
                fn tree(r: &mut Rng, depth: u32) -> Value {
                    let leaves = ["a", "x", "2", "-2", "b", "it.qty", "it.price", "0"];
                    if depth == 0 || r.below(3) == 0 { return json!({"leaf": leaves[r.below(8) as usize]}); }
                    let ops = ["+", "-", "*", "/", "//", "%", "**"];
                    json!({"op": ops[r.below(7) as usize], "l": tree(r, depth - 1), "r": tree(r, depth - 1), "paren": true})
                }
                let mut t = tree(&mut r, 3);
                if t.get("leaf").is_some() { t = json!({"op": "+", "l": t, "r": {"leaf": "a"}, "paren": r.below(2) == 0}); }
                let anns = ["int", "float", "bool"];
                let cmps = ["<", "==", ">="];
                if r.below(5) == 0 { json!({"tree": t, "ann": anns[r.below(3) as usize], "cmp": cmps[r.below(3) as usize], "cmp_float": r.below(2) == 0}) }
                else { json!({"tree": t, "ann": anns[r.below(2) as usize]}) }
            }
            "incan::static_type" => {
                // exhaustive: 7 operators x 2 x 2 operand kinds x 2 annotations x 7 right-operand forms x 4 binding positions x bare/parenthesised x 3 annotation spellings = 9408 programs (inapplicable ones skipped)
                let forms = ["var", "const", "lit", "zero", "neg", "paren", "negneg"];
                let pos = ["let", "return", "arg", "const", "elif"];
                let k = n % 11760;
                json!({"op": k % 7, "lfloat": (k / 7) % 2 == 0, "rfloat": (k / 14) % 2 == 0, "ann_float": (k / 28) % 2 == 0, "form": forms[((k / 56) % 7) as usize], "position": pos[((k / 392) % 5) as usize], "wrap": (k / 1960) % 2 == 1, "spell": (k / 3920) % 3})
            }
            "incan::emit_promotion" => {
                // exhaustive: 4 operators x 4 left forms x 14 right forms x plain/compound x flat/shadowing block x with/without
                // module-level string constants of the same names x compound target local/field = 3584 programs (inapplicable combinations are skipped)
                let k = n % 3584;
                json!({"op": k % 4, "l": (k / 4) % 4, "r": (k / 16) % 14, "compound": (k / 224) % 2 == 1, "shadow": (k / 448) % 2 == 1, "constshadow": (k / 896) % 2 == 1, "fieldtarget": (k / 1792) % 2 == 1})
            }
            "lsp::published_ranges" => json!({"doc": n % 6}),
            "lsp::dependency_ranges" => { let k = n % 12; json!({"dep": k % 4, "entry": k / 4}) }
            "lsp::pipe_ranges" => { let k = n % 27; json!({"doc": k % 9, "mode": k / 9}) }
            "incan::cli_check_location" => json!({"doc": n % 6}),
            "incan::fmt_error_location" => { let k = n % 15; json!({"prefix": k % 5, "lead": k / 5}) }
            "lsp::server_ranges" => {
                // exhaustive: 6 fixed documents x every character boundary as the cursor
                #[cfg(feature = "lsp")]
                {
                    let docs = server::SERVER_DOCS;
                    let mut acc = 0u64; let mut pick = (0usize, 0usize);
                    let total: u64 = docs.iter().map(|d| d.chars().count() as u64 + 1).sum();
                    let m = n % total;
                    for (i, d) in docs.iter().enumerate() { let c = d.chars().count() as u64 + 1; if m < acc + c { pick = (i, (m - acc) as usize); break; } acc += c; }
                    json!({"doc": pick.0, "k": pick.1})
                }
                #[cfg(not(feature = "lsp"))]
                { Value::Null }
            }
            "lsp::diagnostic_range" => {
                // exhaustive over a fixed document list x every (start, end) in 0..=len+1 plus the extremes
                let docs = DOCS;
                let d = docs[(n % docs.len() as u64) as usize];
                let m = (d.len() + 4) as u64;
                let q = n / docs.len() as u64;
                let pick = |z: u64| -> usize { if z < (d.len() + 2) as u64 { z as usize } else if z == (d.len() + 2) as u64 { usize::MAX - 1 } else { usize::MAX / 2 } };
                json!({"s": d, "start": pick(q % m), "end": pick((q / m) % m)})
            }
            "incan::emit_range" => {
                // exhaustive: arity 1..3 x 5 forms per written argument = 5 + 25 + 125 = 155 programs
                let k = n % 155;
                if k < 5 { json!({"arity": 1, "a": 0, "b": k, "c": 0}) }
                else if k < 30 { json!({"arity": 2, "a": (k - 5) / 5, "b": (k - 5) % 5, "c": 0}) }
                else { let q = k - 30; json!({"arity": 3, "a": q / 25, "b": (q / 5) % 5, "c": q % 5}) }
            }
            "incan::emit_division" => {
                // exhaustive: 3 operators x 2 x 2 operand kinds x 11 forms (plain, plain with a negated left operand, compound on local / field / list element,
                // const initializer, bare expression statement, inside int(..), parenthesised operands, call result on the left, lambda body) = 132 programs
                let forms = ["plain", "local", "field", "index", "const", "plain", "stmt", "intcall", "paren", "call", "lambda"];
                let k = n % 132;
                let fi = ((k / 12) % 11) as usize;
                json!({"op": k % 3, "lfloat": (k / 3) % 2 == 0, "rfloat": (k / 6) % 2 == 0, "form": forms[fi], "neg": fi == 5})
            }
            "incan::emit_slice" => 'g: {
                // exhaustive: 2 targets x (slice: 4 start x 4 end x 4 step forms x compact/spaced  +  index: 4 forms) = 2 x (128 + 4) = 264,
                // plus 4 element-assignment forms, 1 dict read, 1 nested index and 1 dict compound assignment = 271
                let kinds = ["none", "var", "zero", "neg"];
                let steps = ["none", "var", "neg", "two"];
                let k0 = n % 287;
                // ... plus 6 further statement contexts (nested assignment target, `for` over a literal-bound slice x4, match-bound list) = 287
                if k0 >= 281 { break 'g json!({"index_kind": "context", "ctx": k0 - 281}); }
                // ... plus 2 programs with an index / a slice read in two f-strings (colliding sub-expression spans) = 281
                if k0 >= 279 { break 'g json!({"index_kind": "fstring", "slice": k0 == 280}); }
                // ... plus 8 reads whose object is a field or a call result (4 objects x index / slice) = 279
                if k0 >= 271 { break 'g json!({"index_kind": "object", "obj": (k0 - 271) % 4, "slice": (k0 - 271) / 4 == 1}); }
                if k0 == 269 { break 'g json!({"index_kind": "nested"}); }
                if k0 == 270 { break 'g json!({"index_kind": "dict_compound"}); }
                if k0 >= 264 {
                    let f = ["var", "zero", "neg", "two"][((k0 - 264) % 4) as usize];
                    break 'g (if k0 < 268 { json!({"index_kind": "assign", "start": f}) } else { json!({"index_kind": "dict"}) });
                }
                let k = k0;
                let t = if k % 2 == 0 { "str" } else { "list" };
                let k = k / 2;
                if k < 128 { json!({"target": t, "start": kinds[(k % 4) as usize], "end": kinds[((k / 4) % 4) as usize], "step": steps[((k / 16) % 4) as usize], "compact": (k / 64) % 2 == 0}) }
                else { let f = ["var", "zero", "neg", "two"][((k - 128) % 4) as usize]; json!({"target": t, "index": true, "start": f}) }
            }
            "incan::compound_assign" => {
                // exhaustive: 6 compound operators x 2 target kinds x 2 value kinds x 3 target forms (local, field, list element) = 72 programs
                let k = n % 72;
                let tf = ["local", "field", "index"][((k / 24) % 3) as usize];
                json!({"op": k % 6, "target_float": (k / 6) % 2 == 0, "value_float": (k / 12) % 2 == 0, "target": tf})
            }
            "incan::exponent_kind" | "incan::binop_plan" => {
                let lits = [0i64, 1, 2, 3, 4294967295, 4294967296, i64::MAX];
                let base = match r.below(3) { 0 => json!({"var": "x"}), _ => { let n = lits[r.below(7) as usize]; json!({"int": n}) } };
                let nw = r.below(4);
                let wrap: Vec<&str> = (0..nw).map(|_| if r.below(2) == 0 { "neg" } else { "paren" }).collect();
                let e = json!({"base": base, "wrap": wrap});
                if oracle == "incan::exponent_kind" { json!({"base": e["base"], "wrap": e["wrap"], "float": r.below(4) == 0}) }
                else { json!({"op": r.below(13), "lfloat": r.below(2) == 0, "rfloat": r.below(2) == 0, "untyped": r.below(4) == 0, "right": e}) }
            }
            _ => return json!({"found": false, "error": "no generator"}),
        };
        let v = call(oracle, &a);
        tried += 1;
        if v.get("error").is_some() { return v; }
        if v["ok"] == json!(false) {
            if let Some(c) = v.get("class").and_then(|c| c.as_str()) { if skip.iter().any(|s| s == c) { continue; } }
            return json!({"found": true, "tried": tried, "case": v});
        }
    }
    json!({"found": false, "tried": tried})
}

fn main() {
    std::panic::set_hook(Box::new(|_| {}));
    let args: Vec<String> = std::env::args().collect();
    if args.len() < 3 { std::process::exit(2); }
    match args[1].as_str() {
        "call" => println!("{}", call(&args[2], &serde_json::from_str(&args[3]).expect("json"))),
        "search" => {
            let seed = args.get(3).and_then(|s| s.parse().ok()).unwrap_or(0);
            let budget = args.get(4).and_then(|s| s.parse().ok()).unwrap_or(100_000);
            let skip: Vec<String> = args.get(5).map(|s| s.split(',').map(|x| x.to_string()).collect()).unwrap_or_default();
            println!("{}", search(&args[2], seed, budget, &skip));
        }
        // `runfile <path>`: compile AND run an Incan program through the real pipeline (front end, code generator, project
        // generator, cargo, the program itself): what `incan run <path>` does. Program output goes to stdout; exit code:
        // the program's, or 3 when the compiler or cargo reported an error (message on stderr).
        #[cfg(feature = "lsp")]
        "runfile" => {
            match incan::cli::commands::run_file(&args[2]) {
                Ok(code) => std::process::exit(code.0),
                Err(e) => { eprintln!("COMPILER-ERROR: {}", e.message); std::process::exit(3); }
            }
        }
        _ => std::process::exit(2),
    }
}
